//! mq-conc: concurrent scenario engine. One execution =
//! setup -> concurrent phase (real threads, seeded scripts, injected stalls)
//! -> join -> quiescent probe (C06) -> teardown -> ledger (C05) -> offline checkers.
use std::sync::atomic::Ordering::SeqCst;
use std::sync::atomic::{AtomicBool, AtomicU32, AtomicU64};
use std::sync::Arc;
use std::time::{Duration, Instant};

use crate::api::{self, Flavour, RecvKind, RecvOut, RxH, SendOut, TxH, WaitKind};
use crate::checkers::{self, CheckCtx};
use crate::hist::{self, Event, Op, Res};
use crate::hooks::{self, site, Policy, Stall};
use crate::model::capacity_for;
use crate::out::J;
use crate::payload::{self, violation};
use crate::report::Shard;
use crate::rng::{Hasher64, Rng};

#[derive(Clone, Copy, Debug, PartialEq, Eq, Hash)]
pub enum Family {
    Steady,
    SlowClone,
    View,
    LastSender,
    AddStreamSole,
    AddStreamShared,
    RemoveStream,
    HandleChurn,
    Quiesce,
    Teardown,
    NoReceiver,
}

impl Family {
    pub fn name(self) -> &'static str {
        match self {
            Family::Steady => "steady",
            Family::SlowClone => "wrap-slow-clone",
            Family::View => "view",
            Family::LastSender => "last-sender",
            Family::AddStreamSole => "add-stream-sole",
            Family::AddStreamShared => "add-stream-shared",
            Family::RemoveStream => "remove-stream",
            Family::HandleChurn => "handle-churn",
            Family::Quiesce => "quiesce",
            Family::Teardown => "teardown-orders",
            Family::NoReceiver => "no-receiver",
        }
    }
    pub fn parse(s: &str) -> Option<Family> {
        Some(match s {
            "steady" => Family::Steady,
            "wrap-slow-clone" | "slow-clone" => Family::SlowClone,
            "view" => Family::View,
            "last-sender" => Family::LastSender,
            "add-stream-sole" => Family::AddStreamSole,
            "add-stream-shared" => Family::AddStreamShared,
            "remove-stream" => Family::RemoveStream,
            "handle-churn" => Family::HandleChurn,
            "quiesce" => Family::Quiesce,
            "teardown-orders" | "teardown" => Family::Teardown,
            "no-receiver" => Family::NoReceiver,
            _ => return None,
        })
    }
    /// property tag added to C01-C03 violations seen in this family
    fn also(self) -> &'static str {
        match self {
            Family::HandleChurn => ",C12",
            Family::AddStreamSole | Family::AddStreamShared => ",C10",
            Family::RemoveStream => ",C11",
            _ => "",
        }
    }
}

#[derive(Clone, Debug)]
pub struct ConsumerCfg {
    pub kinds: Vec<RecvKind>,
    pub uni: bool,
    /// turn the handle into a consuming blocking iterator (only when blocking is allowed)
    pub into_iter: Option<bool>,
}

#[derive(Clone, Debug)]
pub struct StreamCfg {
    pub consumers: Vec<ConsumerCfg>,
}

#[derive(Clone, Debug)]
pub struct ConcCfg {
    pub fl: Flavour,
    pub fut: bool,
    pub cap: u64,
    pub wait: WaitKind,
    pub fut_spins: Option<(usize, usize)>,
    pub family: Family,
    pub producers: u32,
    pub msgs: u32,
    pub sink: bool,
    pub streams: Vec<StreamCfg>,
    pub policy: Policy,
    pub plan: Vec<Stall>,
    pub seed: u64,
    pub max_retries: u64,
}

impl ConcCfg {
    pub fn describe(&self) -> String {
        format!(
            "{} {}{} cap={} wait={} spins={:?} P={} msgs={} sink={} streams=[{}] policy={} plan=[{}]",
            self.family.name(),
            self.fl.name(),
            if self.fut { "-fut" } else { "" },
            self.cap,
            self.wait.name(),
            self.fut_spins,
            self.producers,
            self.msgs,
            self.sink,
            self.streams
                .iter()
                .map(|s| {
                    s.consumers
                        .iter()
                        .map(|c| {
                            format!(
                                "{}{}{:?}",
                                if c.uni { "uni:" } else { "" },
                                if c.into_iter.is_some() { "iter:" } else { "" },
                                c.kinds
                            )
                        })
                        .collect::<Vec<_>>()
                        .join("+")
                })
                .collect::<Vec<_>>()
                .join(" | "),
            self.policy.name(),
            self.plan.iter().map(|s| s.show()).collect::<Vec<_>>().join(", ")
        )
    }
    /// hash of the structural part (not seed / plan)
    pub fn shape_hash(&self) -> u64 {
        let mut h = Hasher64::new();
        h.add_str(self.family.name());
        h.add_str(self.fl.name());
        h.add(self.fut as u64);
        h.add(self.cap);
        h.add_str(&self.wait.name());
        h.add(self.producers as u64);
        h.add(self.sink as u64);
        for s in &self.streams {
            h.add(0xAAAA);
            for c in &s.consumers {
                h.add(c.uni as u64 + 2 * c.into_iter.is_some() as u64);
                for k in &c.kinds {
                    h.add(*k as u64);
                }
            }
        }
        h.add_str(self.policy.name());
        h.get()
    }
}

pub const ROLE_PRODUCER: u32 = 0;
pub const ROLE_CONSUMER: u32 = 1;
pub const ROLE_AUX: u32 = 2;
pub const ROLE_MAIN: u32 = 3;

struct Shared {
    go: AtomicBool,
    stop: AtomicBool,
    producers_total: u32,
    producers_done: AtomicU32,
    tx_total: AtomicU32,
    tx_dropped: AtomicU32,
    full_seen: AtomicU64,
    threads_done: AtomicU32,
    removed: AtomicBool,
    /// no-receiver family: every consumer unsubscribes as soon as it sees this (simultaneous leave)
    leave_now: AtomicBool,
}

impl Shared {
    fn all_producers_done(&self) -> bool {
        self.producers_done.load(SeqCst) >= self.producers_total
    }
    fn all_tx_dropped(&self) -> bool {
        self.tx_dropped.load(SeqCst) >= self.tx_total.load(SeqCst)
    }
}

struct ProducerTask {
    tx: TxH,
    pidx: u32,
    count: u32,
    sink: bool,
    drop_at_end: bool,
    max_retries: u64,
    /// HandleChurn: every n sends clone the sender, send through the clone, drop it
    churn_every: u32,
}

struct ConsumerTask {
    rxs: Vec<RxH>,
    kinds: Vec<RecvKind>,
    until_end: bool,
    post_end_probes: u32,
    leave_after: Option<u32>,
    add_stream_after: Option<u32>,
    churn_every: u32,
    /// RemoveStream: do not consume; wait until producers hit Full, then drop the handles
    slow_then_remove: bool,
    drop_at_end: bool,
    allow_p5_shape: bool,
    /// handle-churn: clones are handed to a helper thread that uses and drops them concurrently
    handoff: Option<std::sync::mpsc::Sender<RxH>>,
}

struct HelperTask {
    inbox: std::sync::mpsc::Receiver<RxH>,
    kinds: Vec<RecvKind>,
}

enum Task {
    Producer(ProducerTask),
    Consumer(ConsumerTask),
    Helper(HelperTask),
}

struct TaskResult {
    txs: Vec<TxH>,
    rxs: Vec<RxH>,
    log: Vec<Event>,
    gave_up: bool,
}

fn backoff(i: u64) {
    if cfg!(miri) {
        std::thread::yield_now();
        return;
    }
    if i % 64 == 63 {
        std::thread::sleep(Duration::from_micros(50));
    } else {
        std::thread::yield_now();
    }
}

fn run_producer(mut t: ProducerTask, sh: &Shared, rng: &mut Rng) -> TaskResult {
    let mut gave_up = false;
    let mut extra: Vec<TxH> = Vec::new();
    'outer: for k in 0..t.count {
        if sh.stop.load(SeqCst) {
            break;
        }
        let id = (((t.pidx + 1) as u64) << 32) | k as u64;
        let mut retries = 0u64;
        // handle churn: go 1 -> 2 -> 1 senders while traffic is flowing
        let mut via_clone: Option<TxH> = None;
        if t.churn_every != 0 && k % t.churn_every == t.churn_every - 1 {
            sh.tx_total.fetch_add(1, SeqCst);
            via_clone = Some(t.tx.clone_tx());
        }
        loop {
            let out = {
                let txr: &mut TxH = match via_clone.as_mut() {
                    Some(c) if rng.chance(1, 2) => c,
                    _ => &mut t.tx,
                };
                if t.sink {
                    txr.start_send(id)
                } else {
                    txr.try_send(id)
                }
            };
            match out {
                SendOut::Ok => break,
                SendOut::Full | SendOut::NotReady => {
                    sh.full_seen.fetch_add(1, SeqCst);
                    retries += 1;
                    if retries > t.max_retries {
                        gave_up = true;
                        if let Some(c) = via_clone.take() {
                            extra.push(c);
                        }
                        break 'outer;
                    }
                    backoff(retries);
                    if sh.stop.load(SeqCst) {
                        if let Some(c) = via_clone.take() {
                            extra.push(c);
                        }
                        break 'outer;
                    }
                }
                SendOut::Disc | SendOut::Panic => {
                    if let Some(c) = via_clone.take() {
                        extra.push(c);
                    }
                    break 'outer;
                }
            }
        }
        if let Some(c) = via_clone.take() {
            c.drop_tx(rng.chance(1, 2));
            sh.tx_dropped.fetch_add(1, SeqCst);
        }
    }
    sh.producers_done.fetch_add(1, SeqCst);
    let mut txs = Vec::new();
    if t.drop_at_end {
        for c in extra.drain(..) {
            c.drop_tx(false);
            sh.tx_dropped.fetch_add(1, SeqCst);
        }
        t.tx.drop_tx(rng.chance(1, 2));
        sh.tx_dropped.fetch_add(1, SeqCst);
    } else {
        txs.push(t.tx);
        txs.extend(extra.drain(..));
    }
    TaskResult {
        txs,
        rxs: Vec::new(),
        log: Vec::new(),
        gave_up,
    }
}

fn pick_kind(rx: &RxH, allowed: &[RecvKind], rng: &mut Rng, allow_blocking: bool) -> RecvKind {
    let mut c: Vec<RecvKind> = allowed
        .iter()
        .copied()
        .filter(|k| rx.supports(*k) && (allow_blocking || !k.blocking()))
        .collect();
    if c.is_empty() {
        c = rx.supported_kinds(allow_blocking);
    }
    if c.is_empty() {
        // only blocking entry points (consuming iterator)
        c = rx.supported_kinds(true);
    }
    *rng.pick(&c)
}

fn run_consumer(mut t: ConsumerTask, sh: &Shared, rng: &mut Rng) -> TaskResult {
    let mut active: Vec<RxH> = t.rxs.drain(..).collect();
    let mut finished: Vec<RxH> = Vec::new();
    if t.slow_then_remove {
        // let the producers run into Full against this stream, then remove it
        let t0 = Instant::now();
        let mut spins = 0u64;
        while sh.full_seen.load(SeqCst) < 3 && !sh.all_producers_done() && !sh.stop.load(SeqCst) {
            backoff(spins);
            spins += 1;
            if !cfg!(miri) && t0.elapsed() > Duration::from_secs(5) {
                break;
            }
            if cfg!(miri) && spins > 3000 {
                break;
            }
        }
        for r in active.drain(..) {
            if rng.chance(1, 2) {
                r.unsubscribe();
            } else {
                r.drop_rx();
            }
        }
        sh.removed.store(true, SeqCst);
        return TaskResult {
            txs: Vec::new(),
            rxs: Vec::new(),
            log: Vec::new(),
            gave_up: false,
        };
    }
    let mut idx = 0usize;
    let mut received = 0u32;
    let mut empties_after_drop = 0u32;
    let mut idle = 0u64;
    let allow_blocking = t.until_end;
    while !active.is_empty() {
        if sh.leave_now.load(SeqCst) {
            // all consumers of all streams leave at (nearly) the same instant, through unsubscribe()
            for r in active.drain(..) {
                r.unsubscribe();
            }
            break;
        }
        let i = idx % active.len();
        idx += 1;
        let stop_before = sh.stop.load(SeqCst);
        let done_before = sh.all_producers_done();
        let dropped_before = sh.all_tx_dropped();
        let k = pick_kind(&active[i], &t.kinds, rng, allow_blocking);
        let note_before = active[i].note.count.load(SeqCst);
        let out = active[i].recv_kind(k);
        match out {
            RecvOut::Val(_) => {
                received += 1;
                idle = 0;
                if let Some(n) = t.leave_after {
                    if received >= n {
                        let r = active.remove(i);
                        if rng.chance(1, 2) {
                            r.unsubscribe();
                        } else {
                            r.drop_rx();
                        }
                        t.leave_after = None;
                        continue;
                    }
                }
                if let Some(n) = t.add_stream_after {
                    if received >= n {
                        t.add_stream_after = None;
                        if let Some(nr) = active[i].add_stream(false) {
                            active.push(nr);
                        }
                    }
                }
                if t.churn_every != 0 && received % t.churn_every == 0 {
                    rx_churn(&mut active, i, rng, t.kinds.as_slice(), &t.handoff);
                }
                if stop_before {
                    // quiesce: stop right away, leaving values outstanding
                    break;
                }
            }
            RecvOut::Empty | RecvOut::NotReady | RecvOut::IterNone => {
                if t.until_end {
                    if dropped_before {
                        empties_after_drop += 1;
                        if out == RecvOut::IterNone || empties_after_drop >= 3 {
                            finished.push(active.remove(i));
                            empties_after_drop = 0;
                            continue;
                        }
                    }
                } else if stop_before || done_before {
                    finished.push(active.remove(i));
                    continue;
                }
                idle += 1;
                if out == RecvOut::NotReady {
                    // the harness is the executor: wait for a notification, but never depend on it
                    let mut w = 0;
                    while active[i].note.count.load(SeqCst) == note_before && w < 20 {
                        std::thread::yield_now();
                        w += 1;
                    }
                } else {
                    backoff(idle);
                }
            }
            RecvOut::End => {
                let mut r = active.remove(i);
                for _ in 0..t.post_end_probes {
                    let k2 = pick_kind(&r, &t.kinds, rng, true);
                    r.recv_kind(k2);
                }
                finished.push(r);
            }
            RecvOut::Panic | RecvOut::Unsupported => {
                finished.push(active.remove(i));
            }
        }
    }
    finished.extend(active.drain(..));
    let mut rxs = Vec::new();
    if t.drop_at_end {
        rng.shuffle(&mut finished);
        for r in finished.drain(..) {
            if rng.chance(1, 2) {
                r.unsubscribe();
            } else {
                r.drop_rx();
            }
        }
    } else {
        rxs = finished;
    }
    let _ = t.allow_p5_shape;
    TaskResult {
        txs: Vec::new(),
        rxs,
        log: Vec::new(),
        gave_up: false,
    }
}

/// clone/drop/into_single/into_multi on a consumer's own handle while siblings run
fn run_helper(h: HelperTask, _sh: &Shared, rng: &mut Rng) -> TaskResult {
    // uses every clone it is handed for a moment, then drops it: the stream's consumer count goes
    // n -> n+1 -> n while the owner of the original handle keeps receiving concurrently
    loop {
        match h.inbox.recv_timeout(Duration::from_millis(20)) {
            Ok(mut c) => {
                let n = 1 + rng.below(3);
                for _ in 0..n {
                    let k = pick_kind(&c, &h.kinds, rng, false);
                    c.recv_kind(k);
                }
                if rng.chance(1, 2) {
                    c.unsubscribe();
                } else {
                    c.drop_rx();
                }
            }
            Err(std::sync::mpsc::RecvTimeoutError::Timeout) => continue,
            // every sender (the consumers holding a clone of it) is gone: the run is over
            Err(std::sync::mpsc::RecvTimeoutError::Disconnected) => break,
        }
    }
    TaskResult {
        txs: Vec::new(),
        rxs: Vec::new(),
        log: Vec::new(),
        gave_up: false,
    }
}

fn rx_churn(active: &mut Vec<RxH>, i: usize, rng: &mut Rng, kinds: &[RecvKind], handoff: &Option<std::sync::mpsc::Sender<RxH>>) {
    if let Some(tx) = handoff {
        if rng.chance(2, 3) {
            if let Some(c) = active[i].clone_rx() {
                let _ = tx.send(c);
            }
            return;
        }
    }
    match rng.below(3) {
        0 | 1 => {
            if let Some(mut c) = active[i].clone_rx() {
                let n = rng.below(3);
                for _ in 0..n {
                    let k = pick_kind(&c, kinds, rng, false);
                    c.recv_kind(k);
                }
                if rng.chance(1, 2) {
                    c.unsubscribe();
                } else {
                    c.drop_rx();
                }
            }
        }
        _ => {
            if let Some(true) = active[i].into_single() {
                let n = rng.below(3);
                for _ in 0..n {
                    let k = pick_kind(&active[i], &[RecvKind::TryView, RecvKind::Poll, RecvKind::TryRecv], rng, false);
                    active[i].recv_kind(k);
                }
                active[i].into_multi();
            }
        }
    }
}

pub struct RunOutcome {
    pub sig: u64,
    pub nontrivial: bool,
    pub stuck: bool,
    pub history: Vec<Event>,
    pub flags: Vec<(&'static str, bool)>,
    /// an add_stream call on a parent that a sibling handle was consuming during the call
    pub add_stream_on_busy_shared_parent: bool,
}

fn overlap_sig(cfg: &ConcCfg, h: &[Event]) -> (u64, bool, bool, bool) {
    // events are sorted by t_call; count overlapping events of other threads per event
    let mut hh = Hasher64::new();
    hh.add(cfg.shape_hash());
    let mut send_recv_overlap = false;
    let mut contention = false;
    let mut churn_overlap = false;
    let mut active: Vec<&Event> = Vec::new();
    for e in h {
        active.retain(|a| a.t_ret > e.t_call);
        let mut cnt = 0u64;
        for a in &active {
            if a.thread != e.thread {
                cnt += 1;
                if (a.op.is_send() && e.op.is_recv()) || (a.op.is_recv() && e.op.is_send()) {
                    send_recv_overlap = true;
                }
                if a.op.is_recv() && e.op.is_recv() && a.stream == e.stream && a.handle != e.handle {
                    contention = true;
                }
                let ch = |o: Op| {
                    matches!(
                        o,
                        Op::CloneTx
                            | Op::DropTx
                            | Op::CloneRx
                            | Op::DropRx
                            | Op::Unsub
                            | Op::IntoSingle
                            | Op::IntoMulti
                            | Op::AddStream
                    )
                };
                if (ch(a.op) && (e.op.is_send() || e.op.is_recv())) || (ch(e.op) && (a.op.is_send() || a.op.is_recv())) {
                    churn_overlap = true;
                }
            }
        }
        hh.add(e.thread as u64);
        hh.add(e.op as u64);
        hh.add(e.res.code());
        hh.add(cnt.min(3));
        active.push(e);
    }
    (hh.get(), send_recv_overlap, contention, churn_overlap)
}

/// The quiescent probe (C06): every call has returned; compare fill/drain with the model
/// state computed from the completed history.
fn quiescent_probe(
    cfg: &ConcCfg,
    first_stream: u32,
    first_tx: u32,
    hist_so_far: &[Event],
    txs: &mut Vec<TxH>,
    rxs: &mut Vec<RxH>,
    next_probe_id: &mut u64,
) -> (Vec<u32>, u64, bool) {
    let n = capacity_for(cfg.cap);
    let c = CheckCtx {
        h: hist_so_far,
        n,
        first_stream,
        first_tx,
        probe_from: u64::MAX,
        probe_drained: Vec::new(),
        also: "",
    };
    let mut ix = checkers::build_index(&c);
    if !ix.pos_ok || !ix.open_sends.is_empty() {
        return (Vec::new(), 0, false);
    }
    // muted: only bounds are needed here, the C10 rule itself is evaluated by the offline pass
    let viol_before = payload::take_violations();
    let _ = checkers::check_c10(&c, &mut ix);
    let _ = payload::take_violations();
    for v in viol_before {
        violation(v.prop, v.rule, v.sig, v.detail);
    }
    let prop = match cfg.family {
        Family::RemoveStream => "C06,C11",
        Family::HandleChurn => "C06,C12",
        Family::AddStreamSole | Family::AddStreamShared => "C06,C10",
        _ => "C06",
    };
    // log by position
    let mut log: Vec<(u64, u64)> = ix.accepted.iter().map(|s| (s.pos, s.id)).collect();
    log.sort_unstable();
    let mut logv: Vec<u64> = log.iter().map(|x| x.1).collect();
    // live streams and cursor bounds
    let mut live_streams: Vec<u32> = Vec::new();
    for r in rxs.iter() {
        if !live_streams.contains(&r.stream) {
            live_streams.push(r.stream);
        }
    }
    let cursor_bounds = |ix: &checkers::Index, s: u32| -> (u64, u64) {
        let st = &ix.streams[&s];
        let cnt = st.deliveries.len() as u64;
        match st.start_pos.or_else(|| st.deliveries.iter().map(|d| d.pos).min()) {
            Some(start) => (start + cnt, start + cnt),
            None => {
                // added stream that delivered nothing: bounded by the C10 facts
                let hi = st.start_hi.unwrap_or(0);
                // lo: parent's deliveries completed before the call began
                let lo = match st.parent.and_then(|p| ix.streams.get(&p)) {
                    Some(ps) => {
                        let pstart = ps
                            .start_pos
                            .or_else(|| ps.deliveries.iter().map(|d| d.pos).min())
                            .unwrap_or(0);
                        pstart + ps.deliveries.iter().filter(|d| d.t_ret < st.created.0).count() as u64
                    }
                    None => 0,
                };
                (lo, hi)
            }
        }
    };
    let total = logv.len() as u64;
    let mut probe_ok = true;
    let mut states = Hasher64::new();
    // ---- phase A: fill to Full
    let mut min_lo = u64::MAX;
    let mut min_hi = u64::MAX;
    for s in &live_streams {
        let (lo, hi) = cursor_bounds(&ix, *s);
        min_lo = min_lo.min(lo);
        min_hi = min_hi.min(hi);
        states.add(total - hi.min(total));
    }
    states.add(total % n);
    states.add(txs.len() as u64);
    states.add(rxs.len() as u64);
    let outstanding_max = total.saturating_sub(min_lo);
    let outstanding_min = total.saturating_sub(min_hi);
    let mut accepted_now = 0u64;
    if !txs.is_empty() && !live_streams.is_empty() {
        let exp_min = n.saturating_sub(outstanding_max);
        let exp_max = n.saturating_sub(outstanding_min);
        let use_sink = txs[0].is_fut() && cfg.sink;
        for _ in 0..(n + 2) {
            let id = *next_probe_id;
            let out = if use_sink { txs[0].start_send(id) } else { txs[0].try_send(id) };
            match out {
                SendOut::Ok => {
                    *next_probe_id += 1;
                    accepted_now += 1;
                    logv.push(id);
                }
                _ => {
                    *next_probe_id += 1;
                    break;
                }
            }
        }
        if accepted_now < exp_min || accepted_now > exp_max {
            probe_ok = false;
            violation(
                if accepted_now > exp_max { payload::intern(format!("{},C03", prop)) } else { prop },
                "quiescent-fill",
                format!(
                    "quiescent-fill:{}",
                    if accepted_now < exp_min { "refused-with-room" } else { "accepted-beyond-capacity" }
                ),
                format!(
                    "after all threads were joined {} value(s) were outstanding (N={}), so {} further sends should be accepted, but {} were",
                    if outstanding_min == outstanding_max { format!("{}", outstanding_min) } else { format!("{}..{}", outstanding_min, outstanding_max) },
                    n,
                    if exp_min == exp_max { format!("{}", exp_min) } else { format!("{}..{}", exp_min, exp_max) },
                    accepted_now
                ),
            );
        }
    }
    // ---- phase B: drain every probe-able stream
    let senders_alive = !txs.is_empty();
    let mut drained: Vec<u32> = Vec::new();
    let mut drain = |rxs: &mut Vec<RxH>, logv: &Vec<u64>, cursors: &mut Vec<(u32, u64, u64)>, drained: &mut Vec<u32>, probe_ok: &mut bool| {
        for (s, lo, hi) in cursors.iter_mut() {
            let ri = match rxs.iter().position(|r| r.stream == *s && !r.is_iter()) {
                Some(i) => i,
                None => continue,
            };
            let mut got: Vec<u64> = Vec::new();
            let mut last = RecvOut::Empty;
            for _ in 0..(logv.len() + 4) {
                let out = rxs[ri].recv_kind(RecvKind::TryRecv);
                match out {
                    RecvOut::Val(seen) => got.push(seen.id),
                    o => {
                        last = o;
                        break;
                    }
                }
            }
            // expected: the suffix of the log from the stream's cursor
            let total = logv.len() as u64;
            let ok_seq = if *lo == *hi {
                let exp = &logv[(*lo).min(total) as usize..];
                exp == got.as_slice()
            } else {
                let k = got.len() as u64;
                k <= total && total - k >= *lo && total - k <= *hi && &logv[(total - k) as usize..] == got.as_slice()
            };
            let exp_last = if senders_alive { RecvOut::Empty } else { RecvOut::End };
            if !ok_seq || last != exp_last {
                *probe_ok = false;
                let exp_txt = if *lo == *hi {
                    format!("{:x?}", &logv[(*lo).min(total) as usize..])
                } else {
                    format!("a suffix of the log starting between {} and {}", lo, hi)
                };
                violation(
                    prop,
                    "quiescent-drain",
                    format!(
                        "quiescent-drain:{}",
                        if !ok_seq { if got.len() as u64 + (*lo).min(total) < total { "missing-values" } else { "wrong-values" } } else { "wrong-end-result" }
                    ),
                    format!(
                        "after all threads were joined stream {} drained to {:x?} then {:?}; the model expects {} then {:?}",
                        s, got, last, exp_txt, exp_last
                    ),
                );
            }
            *lo = total;
            *hi = total;
            if !drained.contains(s) {
                drained.push(*s);
            }
        }
    };
    let mut cursors: Vec<(u32, u64, u64)> = live_streams
        .iter()
        .map(|s| {
            let (lo, hi) = cursor_bounds(&ix, *s);
            (*s, lo, hi)
        })
        .collect();
    drain(rxs, &logv, &mut cursors, &mut drained, &mut probe_ok);
    // ---- phase A2 / B2: from a fully drained queue exactly N sends are accepted
    let all_probeable = live_streams.iter().all(|s| rxs.iter().any(|r| r.stream == *s && !r.is_iter()));
    if senders_alive && all_probeable && !live_streams.is_empty() && probe_ok {
        let mut acc = 0u64;
        for _ in 0..(n + 2) {
            let id = *next_probe_id;
            *next_probe_id += 1;
            match txs[0].try_send(id) {
                SendOut::Ok => {
                    acc += 1;
                    logv.push(id);
                }
                _ => break,
            }
        }
        if acc != n {
            probe_ok = false;
            violation(
                if prop == "C06" { "C06,C03" } else { prop },
                "quiescent-fill",
                format!("quiescent-fill:drained-queue-accepts-{}", if acc < n { "fewer-than-N" } else { "more-than-N" }),
                format!("from a completely drained queue {} sends were accepted, N={}", acc, n),
            );
        }
        drain(rxs, &logv, &mut cursors, &mut drained, &mut probe_ok);
    }
    (drained, states.get(), probe_ok)
}

pub fn run_once(cfg: &ConcCfg, shard: &mut Shard, keep_sample: bool) -> RunOutcome {
    payload::reset_ledger();
    // Under Miri a move-out queue runs with a pointer-free payload: the speculative bitwise read
    // that try_recv discards when it loses the position race would otherwise be reported as a
    // dangling Box although it is never used (C04 only speaks about values that are returned).
    payload::set_pod_mode(cfg!(miri) && cfg.fl == Flavour::Mpmc);
    api::reset_ids();
    hist::clock_reset();
    hooks::STALLS_FIRED.store(0, SeqCst);
    let mut rng = Rng::new(cfg.seed);
    let n = capacity_for(cfg.cap);
    hooks::thread_begin(0, ROLE_MAIN, cfg.seed, Policy::None, &[]);
    let (tx0, rx0) = api::create(cfg.fl, cfg.fut, cfg.cap, cfg.wait, cfg.fut_spins);
    let first_stream = rx0.stream;
    let first_tx = tx0.h;
    let allow_blocking = cfg.family == Family::LastSender;

    // ---- setup: streams and handles, before traffic
    let mut stream_handles: Vec<Vec<RxH>> = Vec::new();
    {
        let mut base = Some(rx0);
        let ns = cfg.streams.len();
        let mut heads: Vec<RxH> = Vec::new();
        for si in 0..ns {
            if si + 1 < ns {
                let nr = base.as_ref().unwrap().add_stream(false).expect("add_stream during setup");
                heads.push(nr);
            } else {
                heads.insert(0, base.take().unwrap());
            }
        }
        // heads[0] is the original stream, heads[1..] added streams
        for (si, mut head) in heads.into_iter().enumerate() {
            let sc = &cfg.streams[si];
            let mut hs: Vec<RxH> = Vec::new();
            for _ in 1..sc.consumers.len() {
                hs.push(head.clone_rx().expect("clone during setup"));
            }
            if sc.consumers.len() == 1 && sc.consumers[0].uni {
                head.into_single();
            }
            hs.insert(0, head);
            for (ci, h) in hs.iter_mut().enumerate() {
                if let Some(with) = sc.consumers[ci].into_iter {
                    if allow_blocking {
                        h.into_blocking_iter(with && h.is_uni());
                    }
                }
            }
            stream_handles.push(hs);
        }
    }
    // senders
    let mut txs: Vec<TxH> = Vec::new();
    for _ in 1..cfg.producers {
        txs.push(tx0.clone_tx());
    }
    // producers hand their sender back at the end (except in last-sender / teardown), so the
    // probe has a sender without an idle clone forcing multi-writer mode all the time
    let keep_idle_sender = false;
    let mut idle_tx: Option<TxH> = None;
    if keep_idle_sender {
        idle_tx = Some(tx0.clone_tx());
    }
    txs.insert(0, tx0);

    let shared = Arc::new(Shared {
        go: AtomicBool::new(false),
        stop: AtomicBool::new(false),
        producers_total: cfg.producers,
        producers_done: AtomicU32::new(0),
        tx_total: AtomicU32::new(cfg.producers + keep_idle_sender as u32),
        tx_dropped: AtomicU32::new(0),
        full_seen: AtomicU64::new(0),
        threads_done: AtomicU32::new(0),
        removed: AtomicBool::new(false),
        leave_now: AtomicBool::new(false),
    });

    // ---- tasks
    let mut tasks: Vec<(u32, Task)> = Vec::new();
    let mut handoff_tx: Option<std::sync::mpsc::Sender<RxH>> = None;
    if cfg.family == Family::HandleChurn {
        let (htx, hrx) = std::sync::mpsc::channel::<RxH>();
        handoff_tx = Some(htx);
        tasks.push((
            ROLE_CONSUMER,
            Task::Helper(HelperTask {
                inbox: hrx,
                kinds: vec![RecvKind::TryRecv, RecvKind::TryIter, RecvKind::Poll],
            }),
        ));
    }
    for (pi, tx) in txs.drain(..).enumerate() {
        tasks.push((
            ROLE_PRODUCER,
            Task::Producer(ProducerTask {
                tx,
                pidx: pi as u32,
                count: cfg.msgs,
                sink: cfg.sink && cfg.fut,
                drop_at_end: matches!(cfg.family, Family::LastSender | Family::Teardown | Family::NoReceiver),
                max_retries: cfg.max_retries,
                churn_every: if cfg.family == Family::HandleChurn {
                    3 + (rng.below(4) as u32)
                } else if cfg.family == Family::NoReceiver && cfg.seed % 4 < 2 {
                    // reclamation cycles keep starting and completing while the last receivers leave
                    1 + (rng.below(2) as u32)
                } else {
                    0
                },
            }),
        ));
    }
    let nstreams = stream_handles.len();
    for (si, hs) in stream_handles.drain(..).enumerate() {
        let sc = &cfg.streams[si];
        // RemoveStream: the last stream is the slow one, all its handles go to one remover thread
        if cfg.family == Family::RemoveStream && si == nstreams - 1 && nstreams > 1 {
            tasks.push((
                ROLE_AUX,
                Task::Consumer(ConsumerTask {
                    rxs: hs,
                    kinds: vec![RecvKind::TryRecv],
                    until_end: false,
                    post_end_probes: 0,
                    leave_after: None,
                    add_stream_after: None,
                    churn_every: 0,
                    slow_then_remove: true,
                    drop_at_end: false,
                    allow_p5_shape: false,
                    handoff: None,
                }),
            ));
            continue;
        }
        let nh = hs.len();
        for (ci, h) in hs.into_iter().enumerate() {
            let cc = &sc.consumers[ci];
            let mut add_after = None;
            if ci == 0 {
                match cfg.family {
                    Family::AddStreamSole | Family::AddStreamShared => {
                        // the first stream's first consumer always adds a stream; the first consumer of
                        // a second sole-handle stream often does too (two add_stream calls racing)
                        if si == 0 || (si == 1 && nh == 1 && !cc.uni && rng.chance(1, 2)) {
                            add_after = Some(1 + rng.below((cfg.msgs as u64).max(2)) as u32);
                        }
                    }
                    Family::RemoveStream => {
                        // add_stream racing with the removal of another stream
                        if si == 0 && nh == 1 && !cc.uni && rng.chance(1, 2) {
                            // early: the stream still gets values before the producers are stuck
                            add_after = Some(1 + rng.below(2) as u32);
                        }
                    }
                    _ => {}
                }
            }
            let leave_after = if cfg.family == Family::NoReceiver {
                Some(1 + rng.below(cfg.msgs as u64 / 2 + 1) as u32)
            } else if cfg.family == Family::RemoveStream && nh > 1 && ci == nh - 1 {
                Some(1 + rng.below(cfg.msgs as u64 / 2 + 1) as u32)
            } else if cfg.family == Family::HandleChurn && nh > 1 && ci == nh - 1 && rng.chance(1, 2) {
                Some(1 + rng.below(cfg.msgs as u64 + 1) as u32)
            } else {
                None
            };
            tasks.push((
                if add_after.is_some() { ROLE_AUX } else { ROLE_CONSUMER },
                Task::Consumer(ConsumerTask {
                    rxs: vec![h],
                    kinds: cc.kinds.clone(),
                    until_end: cfg.family == Family::LastSender,
                    post_end_probes: 3,
                    leave_after,
                    add_stream_after: add_after,
                    churn_every: if cfg.family == Family::HandleChurn && !cc.uni { 2 + rng.below(4) as u32 } else { 0 },
                    slow_then_remove: false,
                    drop_at_end: cfg.family == Family::Teardown,
                    allow_p5_shape: cfg.family == Family::AddStreamShared,
                    handoff: if cfg.family == Family::HandleChurn && si == 0 { handoff_tx.clone() } else { None },
                }),
            ));
        }
    }

    drop(handoff_tx);
    // ---- concurrent phase
    hooks::track_pairs(cfg.policy != Policy::None);
    let nthreads = tasks.len() as u32;
    let mut joins = Vec::new();
    for (ti, (role, task)) in tasks.into_iter().enumerate() {
        let sh = shared.clone();
        let seed = rng.next();
        let policy = cfg.policy;
        let plan = cfg.plan.clone();
        let tid = ti as u32 + 1;
        let b = std::thread::Builder::new().name(format!("mqv-{}", tid));
        let j = b
            .spawn(move || {
                hooks::thread_begin(tid, role, seed, policy, &plan);
                let mut trng = Rng::new(seed ^ 0x7e57);
                while !sh.go.load(SeqCst) {
                    std::thread::yield_now();
                }
                let mut r = match task {
                    Task::Producer(p) => run_producer(p, &sh, &mut trng),
                    Task::Consumer(c) => run_consumer(c, &sh, &mut trng),
                    Task::Helper(h) => run_helper(h, &sh, &mut trng),
                };
                r.log = hist::take();
                hooks::thread_end();
                sh.threads_done.fetch_add(1, SeqCst);
                r
            })
            .expect("spawn");
        joins.push(j);
    }
    shared.go.store(true, SeqCst);
    if cfg.family == Family::NoReceiver && cfg.seed % 2 == 0 {
        let target = 10 + rng.below((cfg.msgs as u64 * cfg.producers as u64).max(20));
        let t0 = Instant::now();
        while hist::clock_peek() < target && shared.threads_done.load(SeqCst) < nthreads {
            std::hint::spin_loop();
            if !cfg!(miri) && t0.elapsed() > Duration::from_secs(2) {
                break;
            }
            if cfg!(miri) {
                std::thread::yield_now();
            }
        }
        shared.leave_now.store(true, SeqCst);
    }
    if cfg.family == Family::Quiesce {
        // stop at a random logical time
        let target = 20 + rng.below((cfg.msgs as u64 * cfg.producers as u64 * 3).max(30));
        let t0 = Instant::now();
        while hist::clock_peek() < target && shared.threads_done.load(SeqCst) < nthreads {
            std::thread::yield_now();
            if !cfg!(miri) && t0.elapsed() > Duration::from_secs(2) {
                break;
            }
        }
        shared.stop.store(true, SeqCst);
    }
    // join with an (inconclusive) watchdog
    let t0 = Instant::now();
    let mut stuck = false;
    if !cfg!(miri) {
        // 25 s, extended in steps of 5 s (up to 150 s) as long as hook sites are still being passed:
        // a slow scenario on a loaded machine is not a stuck one
        let mut deadline = Duration::from_secs(25);
        let mut sites_seen = hooks::sites_passed_by_all();
        while shared.threads_done.load(SeqCst) < nthreads {
            std::thread::sleep(Duration::from_micros(200));
            if t0.elapsed() > deadline {
                let now = hooks::sites_passed_by_all();
                if now != sites_seen && deadline < Duration::from_secs(150) {
                    sites_seen = now;
                    deadline += Duration::from_secs(5);
                    continue;
                }
                stuck = true;
                break;
            }
        }
    }
    if stuck {
        // cannot join; report what we have (the stuck threads' logs are lost)
        match hooks::asleep_and_nobody_moves(0, 40) {
            Some(who) => {
                // not a wall-clock verdict: nobody is running, nobody can be woken, the supervisor only waits
                violation(
                    "C08,C01,C07",
                    "blocked-forever",
                    "blocked-forever:conc:waiting-and-no-queue-operation-in-progress".to_string(),
                    format!(
                        "25 s after the scenario started, over 40 looks 50 ms apart no thread passed a hook site (no queue operation, in particular no send, sender drop or notify, is in progress) while consumers sit inside Wait::wait: nothing is left that could release them, whatever was accepted for them is never delivered and the end is never reported [{}] ({})",
                        who,
                        cfg.describe()
                    ),
                );
            }
            None => shard.inconclusive.push(format!(
                "a thread did not finish within the wall-clock watchdog (25 s + extensions while progressing, 150 s at most), run seed {}: {}",
                cfg.seed,
                cfg.describe()
            )),
        }
        hooks::thread_end();
        return RunOutcome {
            sig: 0,
            nontrivial: false,
            stuck: true,
            history: Vec::new(),
            flags: Vec::new(),
            add_stream_on_busy_shared_parent: false,
        };
    }
    let mut logs: Vec<Vec<Event>> = Vec::new();
    let mut txs: Vec<TxH> = Vec::new();
    let mut rxs: Vec<RxH> = Vec::new();
    let mut gave_up = false;
    for j in joins {
        match j.join() {
            Ok(r) => {
                logs.push(r.log);
                txs.extend(r.txs);
                rxs.extend(r.rxs);
                gave_up |= r.gave_up;
            }
            Err(_) => {
                hooks::harness_error("a harness thread panicked outside an API call");
            }
        }
    }
    hooks::track_pairs(false);
    if let Some(t) = idle_tx.take() {
        txs.push(t);
    }
    // ---- quiescent probe
    logs.push(hist::take());
    let pre = hist::merge(logs);
    let probe_from = hist::clock_peek();
    let mut next_probe_id = 0xF000_0000_0000u64;
    let (drained, qstate, _probe_ok) = if matches!(cfg.family, Family::Teardown | Family::NoReceiver) {
        (Vec::new(), 0, true)
    } else {
        quiescent_probe(cfg, first_stream, first_tx, &pre, &mut txs, &mut rxs, &mut next_probe_id)
    };
    // ---- teardown in a seeded order
    let outstanding_at_teardown = !rxs.is_empty();
    let nh = txs.len() + rxs.len();
    let mut order: Vec<usize> = (0..nh).collect();
    rng.shuffle(&mut order);
    let ntx = txs.len();
    let mut txo: Vec<Option<TxH>> = txs.into_iter().map(Some).collect();
    let mut rxo: Vec<Option<RxH>> = rxs.into_iter().map(Some).collect();
    for i in order {
        if i < ntx {
            if let Some(t) = txo[i].take() {
                t.drop_tx(false);
            }
        } else if let Some(r) = rxo[i - ntx].take() {
            r.drop_rx();
        }
    }
    let alive = payload::alive_serials();
    if !alive.is_empty() {
        violation(
            "C05",
            "never-dropped",
            "never-dropped:after-teardown".to_string(),
            format!(
                "{} payload instance(s) still alive after every handle was dropped; serials {:?}",
                alive.len(),
                &alive[..alive.len().min(8)]
            ),
        );
    }
    let post = hist::take();
    let h = hist::merge(vec![pre, post]);
    hooks::thread_end();

    // ---- offline checkers
    let c = CheckCtx {
        h: &h,
        n,
        first_stream,
        first_tx,
        probe_from,
        probe_drained: drained,
        also: cfg.family.also(),
    };
    let prof = std::env::var("MQV_PROFILE").is_ok();
    let mut tp = Instant::now();
    let mut lap = |name: &str| {
        if prof {
            eprintln!("  checker {:<12} {:?}", name, tp.elapsed());
        }
        tp = Instant::now();
    };
    let mut ix = checkers::build_index(&c);
    lap("index");
    let facts = checkers::check_c10(&c, &mut ix);
    lap("c10");
    checkers::check_c01(&c, &ix);
    lap("c01");
    checkers::check_c02(&c, &ix);
    lap("c02");
    checkers::check_c03(&c, &ix);
    lap("c03");
    checkers::check_c07(&c, &ix);
    lap("c07");
    checkers::check_c11_bool(&c, &ix);
    checkers::check_c11_group(&c, &ix);
    lap("c11");
    checkers::check_c13(&c, &ix);
    lap("c13");
    if gave_up {
        // a producer was refused max_retries times in a row while consumers were running
        violation(
            match cfg.family {
                Family::RemoveStream => "C06,C11",
                Family::HandleChurn => "C06,C12",
                Family::AddStreamSole | Family::AddStreamShared => "C06,C10",
                _ => "C06",
            },
            "producer-starved",
            "producer-starved".to_string(),
            format!(
                "a producer was refused {} consecutive times although every stream had a running consumer",
                cfg.max_retries
            ),
        );
    }

    // ---- signature, non-triviality
    let (sig, send_recv_overlap, contention, churn_overlap) = overlap_sig(cfg, &h);
    let total = ix.accepted.len() as u64;
    let wrapped = total > n;
    let had_full = h.iter().any(|e| e.op.is_send() && matches!(e.res, Res::Full | Res::NotReady));
    let mid = payload::MID_OVERLAPS.load(SeqCst) > 0;
    let saw_end = h.iter().any(|e| e.res == Res::End);
    let stalls = hooks::STALLS_FIRED.load(SeqCst);
    let add_overlap = h.iter().any(|e| {
        e.op == Op::AddStream
            && e.thread != 0
            && h.iter().any(|o| o.thread != e.thread && o.op.is_send() && o.t_call < e.t_ret && o.t_ret > e.t_call)
    });
    let nontrivial = match cfg.family {
        Family::Steady | Family::View => wrapped && send_recv_overlap,
        Family::SlowClone => wrapped && mid,
        Family::LastSender => saw_end && send_recv_overlap,
        Family::AddStreamSole => add_overlap,
        Family::AddStreamShared => add_overlap && facts.iter().any(|f| f.sibling_overlap),
        Family::RemoveStream => had_full && shared.removed.load(SeqCst),
        Family::HandleChurn => churn_overlap,
        Family::Quiesce => send_recv_overlap,
        Family::Teardown => outstanding_at_teardown || wrapped,
        Family::NoReceiver => h.iter().any(|e| e.op.is_send() && e.res == Res::Disc),
    };
    shard.stat("accepted_sends", total);
    shard.stat("events", h.len() as u64);
    shard.stat("stalls_fired", stalls);
    shard.stat("rendezvous_met", hooks::RENDEZVOUS_MET.swap(0, SeqCst));
    hooks::watch_off();
    shard.stat("runs_wrapped", wrapped as u64);
    shard.stat("runs_with_full", had_full as u64);
    shard.stat("runs_send_recv_overlap", send_recv_overlap as u64);
    shard.stat("runs_shared_stream_contention", contention as u64);
    shard.stat("runs_churn_overlap", churn_overlap as u64);
    shard.stat("runs_mid_clone_overlap", mid as u64);
    shard.stat("clones", payload::CLONES.load(SeqCst));
    shard.stat("views", payload::VIEWS.load(SeqCst));
    shard.stat("mid_overlaps", payload::MID_OVERLAPS.load(SeqCst));
    shard.stat("add_stream_calls", facts.len() as u64);
    shard.stat("add_stream_sibling_overlap", facts.iter().filter(|f| f.sibling_overlap).count() as u64);
    if qstate != 0 {
        shard.set_add("quiescent_states", qstate);
        shard.stat("quiescent_probes", 1);
    }
    let _ = keep_sample;
    RunOutcome {
        sig,
        nontrivial,
        stuck: false,
        history: h,
        flags: vec![
            ("wrapped", wrapped),
            ("had_full", had_full),
            ("send_recv_overlap", send_recv_overlap),
            ("contention", contention),
            ("churn_overlap", churn_overlap),
            ("mid_clone_overlap", mid),
        ],
        add_stream_on_busy_shared_parent: facts.iter().any(|f| f.sibling_overlap),
    }
}

// ------------------------------------------------------------------ configuration generator

fn stall_sites(f: Family) -> Vec<(u32, u32)> {
    // (site, role mask)
    let p = 1 << ROLE_PRODUCER;
    let c = (1 << ROLE_CONSUMER) | (1 << ROLE_AUX);
    let a = 1 << ROLE_AUX;
    let mut v = vec![
        (site::SM_CLAIMED, p),
        (site::SS_CLAIMED, p),
        (site::SM_WRITTEN, p),
        (site::SS_WRITTEN, p),
        (site::SS_TAILOK, p),
        (site::SM_TAILOK, p),
        (site::SM_PINOK, p),
        (site::SS_PINOK, p),
        (site::GMD_BETWEEN_READERS, p),
        (site::GMD_BEFORE_RECHECK, p),
        (site::RT_M_SCANNED, p),
        (site::RT_S_SCANNED, p),
        (site::R_TAG, c),
        (site::R_PINNED, c),
        (site::R_READ, c),
        (site::R_UNPINNED, c),
        (site::R_BEFORE_READ, c),
        (site::V_BEFORE_OP, c),
        (site::V_AFTER_OP, c),
        (hooks::PAYLOAD_MID, c),
    ];
    match f {
        Family::LastSender => {
            v.extend(vec![
                (site::R_W0, c),
                (site::V_W0, c),
                (site::R_TAG, c),
                (site::V_TAG, c),
                (site::TX_DROP_DEC, p),
                (site::TX_DROP_BEFORE_NOTIFY, p),
                (site::B_EMPTY, c),
                (site::B_BEFORE_WAIT, c),
            ]);
        }
        Family::AddStreamSole | Family::AddStreamShared => {
            v.extend(vec![
                (site::AS_SNAPSHOT, a),
                (site::AS_SNAPSHOT, a),
                (site::AS_BEFORE_CAS, a),
                (site::AS_PUBLISHED, a),
                (site::GMD_LOADED_PTR, p),
            ]);
        }
        Family::RemoveStream => {
            v.extend(vec![
                (site::RR_BEFORE_CAS, a | c),
                (site::RR_PUBLISHED, a | c),
                (site::RR_RETIRED, a | c),
                (site::RX_UNSUB_DEC, a | c),
                (site::RX_UNSUB_REMOVED, a | c),
                (site::GMD_LOADED_PTR, p),
            ]);
        }
        Family::NoReceiver => {
            // a leaving receiver pauses inside its removal while the producers keep sending
            for _ in 0..3 {
                v.extend(vec![
                    (site::RR_LOADED, c),
                    (site::RR_BEFORE_CAS, c),
                    (site::RR_PUBLISHED, c),
                    (site::RR_RETIRED, c),
                    (site::RX_UNSUB_DEC, c),
                    (site::RX_UNSUB_REMOVED, c),
                ]);
            }
        }
        Family::HandleChurn => {
            v.extend(vec![
                (site::TX_CLONE_MARKED, p),
                (site::TX_CLONE_BUILT, p),
                (site::TX_DROP_DEC, p),
                (site::TS_MODE_UNI, p),
                (site::RX_CLONE_DUP, c),
                (site::RX_UNSUB_DEC, c),
                (site::LA_MODE_SINGLE, c),
                (site::R_POS, c),
                (site::R_CAS_LOST, c),
            ]);
        }
        Family::SlowClone => {
            for _ in 0..6 {
                v.push((hooks::PAYLOAD_MID, c));
            }
            v.push((site::R_PINNED, c));
            v.push((site::R_READ, c));
        }
        _ => {}
    }
    v
}

/// (site where a thread pauses, roles, site another thread must pass) - windows that only open
/// when two specific steps of two threads interleave
fn rendezvous_pairs(f: Family) -> Vec<(u32, u32, u32)> {
    let p = 1 << ROLE_PRODUCER;
    let c = (1 << ROLE_CONSUMER) | (1 << ROLE_AUX);
    let a = 1 << ROLE_AUX;
    let mut v = vec![
        (hooks::PAYLOAD_MID, c, site::SM_CLAIMED),
        (hooks::PAYLOAD_MID, c, site::SS_CLAIMED),
        (hooks::PAYLOAD_MID, c, site::R_UNPINNED),
        (site::R_PINNED, c, site::R_UNPINNED),
        (site::R_BEFORE_READ, c, site::R_UNPINNED),
        (site::R_READ, c, site::SM_TAILOK),
        (site::R_READ, c, site::SS_TAILOK),
        (site::R_TAG, c, site::R_UNPINNED),
        (site::R_POS, c, site::SM_PUBLISHED),
        (site::SM_CLAIMED, p, site::SM_PUBLISHED),
        (site::SM_WRITTEN, p, site::SM_PUBLISHED),
        (site::SM_PINOK, p, site::R_PINNED),
        (site::SS_PINOK, p, site::R_PINNED),
        (site::SM_TAILOK, p, site::R_PINNED),
        (site::SS_TAILOK, p, site::R_PINNED),
        (site::V_BEFORE_OP, c, site::SS_TAILOK),
        (site::V_AFTER_OP, c, site::SM_TAILOK),
        (site::GMD_BETWEEN_READERS, p, site::R_UNPINNED),
    ];
    match f {
        Family::AddStreamSole | Family::AddStreamShared => {
            for _ in 0..3 {
                v.push((site::GMD_LOADED_PTR, p, site::AS_PUBLISHED));
                v.push((site::GMD_BETWEEN_READERS, p, site::AS_PUBLISHED));
                v.push((site::GMD_BEFORE_RECHECK, p, site::AS_PUBLISHED));
            }
            v.push((site::AS_SNAPSHOT, a, site::SM_PUBLISHED));
            v.push((site::AS_SNAPSHOT, a, site::SS_PUBLISHED));
            v.push((site::AS_BEFORE_CAS, a, site::RT_M_SCANNED));
            v.push((site::SS_TAILOK, p, site::AS_PUBLISHED));
            v.push((site::SM_TAILOK, p, site::AS_PUBLISHED));
        }
        Family::RemoveStream | Family::NoReceiver => {
            for _ in 0..2 {
                // two leaving streams that both work from the same stream list
                v.push((site::RR_LOADED, c, site::RR_LOADED));
                v.push((site::RR_BEFORE_CAS, c, site::RR_LOADED));
                v.push((site::GMD_LOADED_PTR, p, site::RR_PUBLISHED));
                v.push((site::GMD_BETWEEN_READERS, p, site::RR_PUBLISHED));
                v.push((site::GMD_BETWEEN_READERS, p, site::RR_RETIRED));
                v.push((site::SS_PINOK, p, site::RX_UNSUB_REMOVED));
                v.push((site::SM_PINOK, p, site::RX_UNSUB_REMOVED));
                v.push((site::SS_HEAD, p, site::RX_UNSUB_DONE));
                v.push((site::SM_HEAD, p, site::RX_UNSUB_DEC));
                v.push((site::SS_TAILOK, p, site::RX_UNSUB_DEC));
            }
        }
        Family::HandleChurn => {
            for _ in 0..2 {
                // a consumer that has loaded its position pauses until a sibling handle has been dropped
                v.push((site::R_ATTEMPT, c, site::RX_UNSUB_DEC));
                v.push((site::R_ATTEMPT, c, site::RX_UNSUB_DONE));
                v.push((site::R_ATTEMPT, c, site::RX_UNSUB_DEC));
                v.push((site::R_POS, c, site::RX_CLONE_DUP));
                v.push((site::R_TAG, c, site::RX_CLONE_DUP));
                v.push((site::R_BEFORE_READ, c, site::RX_CLONE_DUP));
                v.push((site::R_UNPINNED, c, site::RX_CLONE_DUP));
                v.push((site::V_BEFORE_OP, c, site::RX_CLONE_DUP));
                v.push((site::R_POS, c, site::LA_MODE_SINGLE));
                v.push((site::SS_HEAD, p, site::TX_CLONE_BUILT));
                v.push((site::SS_TAILOK, p, site::TX_CLONE_BUILT));
                v.push((site::SS_PINOK, p, site::TX_CLONE_MARKED));
                v.push((site::SS_CLAIMED, p, site::TX_CLONE_BUILT));
                v.push((site::TS_ENTRY, p, site::TX_CLONE_BUILT));
                v.push((site::TS_MODE_UNI, p, site::TX_CLONE_MARKED));
                v.push((site::SM_HEAD, p, site::TX_DROP_DEC));
                v.push((site::SM_CLAIMED, p, site::TS_MODE_UNI));
            }
        }
        Family::LastSender => {
            for _ in 0..3 {
                v.push((site::R_TAG, c, site::TX_DROP_DEC));
                v.push((site::V_TAG, c, site::TX_DROP_DEC));
                v.push((site::R_TAG, c, site::SS_PUBLISHED));
                v.push((site::R_TAG, c, site::SM_PUBLISHED));
                v.push((site::R_W0, c, site::SM_PUBLISHED));
                v.push((site::R_POS, c, site::TX_DROP_DEC));
                v.push((site::B_EMPTY, c, site::TX_DROP_BEFORE_NOTIFY));
                v.push((site::BW_BEFORE_LOCK, c, site::TX_DROP_BEFORE_NOTIFY));
                v.push((site::SM_CLAIMED, p, site::TX_DROP_DEC));
            }
        }
        _ => {}
    }
    v
}

pub struct GenOpts {
    /// explicit stall plan (debugging / replay): "SITE:rolemask:nth:events[:UNTIL_SITE]" separated by ','
    pub plan: Option<Vec<Stall>>,
    pub fl: Option<Flavour>,
    pub fut: Option<bool>,
    pub small: bool,
    /// long free-running executions (tens of thousands of messages): windows without a hook site are
    /// only reachable through natural pre-emption, which needs time on an oversubscribed machine
    pub long: bool,
    pub policy: Option<Policy>,
}

pub fn gen_cfg(rng: &mut Rng, family: Family, o: &GenOpts) -> ConcCfg {
    let miri = cfg!(miri) || o.small;
    let mut fl = o.fl.unwrap_or(if rng.chance(1, 2) { Flavour::Broadcast } else { Flavour::Mpmc });
    // families that need several streams / add_stream only exist for broadcast
    if matches!(
        family,
        Family::AddStreamSole | Family::AddStreamShared | Family::RemoveStream | Family::SlowClone
    ) {
        fl = Flavour::Broadcast;
    }
    let fut = o.fut.unwrap_or_else(|| rng.chance(1, 3));
    let cap = match family {
        Family::SlowClone => *rng.pick(&[0u64, 1, 2, 3, 4]),
        Family::AddStreamSole | Family::AddStreamShared => *rng.pick(&[1u64, 2, 4]),
        _ => *rng.pick(&[0u64, 1, 2, 3, 4, 5, 8, 9]),
    };
    let wait = match rng.below(4) {
        0 => WaitKind::Busy,
        1 => WaitKind::Yield(rng.below(3) as usize, rng.below(4) as usize),
        2 => WaitKind::Block(0, 0),
        _ => WaitKind::Block(50, 50),
    };
    let fut_spins = if fut && fl == Flavour::Broadcast {
        match rng.below(3) {
            0 => None,
            1 => Some((0, 0)),
            _ => Some((2, 1)),
        }
    } else {
        None
    };
    let producers = 1 + rng.below(3) as u32;
    let nstreams = if fl == Flavour::Mpmc {
        1
    } else {
        match family {
            Family::RemoveStream => 2 + rng.below(2) as usize,
            _ => 1 + rng.below(3) as usize,
        }
    };
    let allow_blocking = family == Family::LastSender;
    let mut streams = Vec::new();
    for si in 0..nstreams {
        let mut k = 1 + rng.below(3) as usize;
        if family == Family::View {
            k = 1;
        }
        if family == Family::AddStreamSole && si == 0 {
            k = 1;
        }
        if family == Family::AddStreamShared && si == 0 {
            k = 2 + rng.below(2) as usize;
        }
        if family == Family::HandleChurn && si == 0 {
            k = 1 + rng.below(2) as usize;
        }
        let mut consumers = Vec::new();
        for _ in 0..k {
            let uni = k == 1
                && match family {
                    Family::View => true,
                    // only the futures single-consumer receiver can create streams (add_stream_with)
                    Family::AddStreamSole => fut && rng.chance(1, 3),
                    Family::AddStreamShared => false,
                    _ => rng.chance(1, 3),
                };
            // entry points
            let mut kinds: Vec<RecvKind> = Vec::new();
            let pool: Vec<RecvKind> = if fut {
                vec![RecvKind::Poll, RecvKind::Poll, RecvKind::TryRecv]
            } else if uni {
                vec![RecvKind::TryView, RecvKind::TryIterWith, RecvKind::TryRecv, RecvKind::TryIter, RecvKind::TryView]
            } else {
                vec![RecvKind::TryRecv, RecvKind::TryRecv, RecvKind::TryIter]
            };
            let nk = 1 + rng.below(2);
            for _ in 0..nk {
                let kk = *rng.pick(&pool);
                if !kinds.contains(&kk) {
                    kinds.push(kk);
                }
            }
            if allow_blocking && !fut && rng.chance(1, 2) {
                kinds.push(if uni && rng.chance(1, 2) { RecvKind::RecvView } else { RecvKind::Recv });
            }
            let into_iter = if allow_blocking && !fut && rng.chance(1, 6) { Some(rng.chance(1, 2)) } else { None };
            consumers.push(ConsumerCfg { kinds, uni, into_iter });
        }
        streams.push(StreamCfg { consumers });
    }
    let msgs = if miri {
        6 + rng.below(10) as u32
    } else {
        match rng.below(4) {
            0 => 8 + rng.below(24) as u32,
            1 | 2 => 30 + rng.below(120) as u32,
            _ => 200 + rng.below(600) as u32,
        }
    };
    let msgs = if o.long && !miri { 20_000 + rng.below(40_000) as u32 } else { msgs };
    let policy = if o.long { Some(Policy::None) } else { o.policy };
    let policy = policy.unwrap_or_else(|| match rng.below(8) {
        0 => Policy::None,
        1 | 2 => Policy::Yield,
        3 => Policy::Jitter,
        _ => Policy::Stall,
    });
    let mut plan = Vec::new();
    if policy == Policy::Stall {
        if rng.chance(2, 3) {
            let pairs = rendezvous_pairs(family);
            for _ in 0..(1 + rng.below(2)) {
                let (s, roles, until) = *rng.pick(&pairs);
                plan.push(Stall {
                    site: s,
                    roles,
                    nth: 1 + rng.below(30) as u32,
                    events: 1 + rng.below(40) as u32,
                    until: Some(until),
                    gate: None,
                    cap_us: 200,
                    max_pauses: 12,
                });
            }
        }
        // two cooperating stalls: the one-shot operation waits just before its decisive step until a
        // writer is inside its stream-list scan; that writer then pauses until the step is done
        let duo: Option<(u32, u32, u32)> = match family {
            Family::AddStreamSole | Family::AddStreamShared => Some((site::AS_BEFORE_CAS, 1 << ROLE_AUX, site::AS_PUBLISHED)),
            Family::RemoveStream => Some((site::RR_BEFORE_CAS, (1 << ROLE_AUX) | (1 << ROLE_CONSUMER), site::RR_RETIRED)),
            _ => None,
        };
        // a list update that is made to lose its compare-exchange against another list update
        if matches!(family, Family::AddStreamSole | Family::AddStreamShared | Family::RemoveStream) && rng.chance(1, 2) {
            let other = if family == Family::RemoveStream { site::RR_PUBLISHED } else { site::AS_PUBLISHED };
            plan.push(Stall {
                site: site::AS_BEFORE_CAS,
                roles: 1 << ROLE_AUX,
                nth: 1,
                events: rng.below(4) as u32,
                until: Some(other),
                gate: None,
                cap_us: 3000,
                max_pauses: 3,
            });
            if family == Family::RemoveStream {
                plan.push(Stall {
                    site: site::RR_BEFORE_CAS,
                    roles: (1 << ROLE_AUX) | (1 << ROLE_CONSUMER),
                    nth: 1,
                    events: rng.below(4) as u32,
                    until: Some(site::AS_PUBLISHED),
                    gate: None,
                    cap_us: 3000,
                    max_pauses: 2,
                });
            }
        }
        if let Some((wait_site, wait_roles, done_site)) = duo {
            if rng.chance(2, 3) {
                let scan_site = *rng.pick(&[site::GMD_BETWEEN_READERS, site::GMD_BETWEEN_READERS, site::GMD_LOADED_PTR, site::GMD_BEFORE_RECHECK]);
                plan.push(Stall {
                    site: wait_site,
                    roles: wait_roles,
                    nth: 1,
                    events: rng.below(6) as u32,
                    until: Some(scan_site),
                    gate: None,
                    cap_us: 2000,
                    max_pauses: 4,
                });
                plan.push(Stall {
                    site: scan_site,
                    roles: 1 << ROLE_PRODUCER,
                    nth: 1,
                    events: 2 + rng.below(40) as u32,
                    until: Some(done_site),
                    gate: Some(wait_site),
                    cap_us: 2000,
                    max_pauses: 1000,
                });
            }
        }
        let sites = stall_sites(family);
        let ns = 1 + rng.below(3);
        for _ in 0..ns {
            let (s, roles) = *rng.pick(&sites);
            plan.push(Stall {
                site: s,
                roles,
                nth: 1 + rng.below((msgs as u64).min(40)) as u32,
                events: 10 + rng.below(490) as u32,
                until: None,
                gate: None,
                cap_us: 200,
                max_pauses: 0,
            });
        }
    }
    let (policy, plan) = match &o.plan {
        Some(p) => (Policy::Stall, p.clone()),
        None => (policy, plan),
    };
    ConcCfg {
        fl,
        fut,
        cap,
        wait,
        fut_spins,
        family,
        producers,
        msgs,
        sink: fut && rng.chance(2, 3),
        streams,
        policy,
        plan,
        seed: rng.next(),
        max_retries: if miri { 4000 } else { 400_000 },
    }
}

pub struct ConcParams {
    pub seed: u64,
    pub runs: u64,
    pub budget_ms: u64,
    pub families: Vec<Family>,
    pub opts: GenOpts,
}

pub fn run_many(p: &ConcParams, shard: &mut Shard) {
    let t0 = Instant::now();
    // own-step bound for every non-blocking call (a correct call passes < 200 + 4*streams sites)
    api::STEP_LIMIT.store(200_000, SeqCst);
    let mut rng = Rng::new(p.seed);
    let mut i = 0;
    while i < p.runs {
        if p.budget_ms != 0 && t0.elapsed().as_millis() as u64 > p.budget_ms {
            break;
        }
        let fam = *rng.pick(&p.families);
        let cfg = gen_cfg(&mut rng, fam, &p.opts);
        let out = run_once(&cfg, shard, i < 2);
        if out.stuck {
            // the process still has stuck threads: stop this shard here
            shard.stat("stuck_runs", 1);
            let mut vs = payload::take_violations();
            if !vs.is_empty() {
                let also = fam.also();
                if !also.is_empty() {
                    for v in vs.iter_mut() {
                        if !v.prop.contains(&also[1..]) {
                            v.prop = payload::intern(format!("{}{}", v.prop, also));
                        }
                    }
                }
                let replay = J::obj()
                    .set("engine", J::s("conc"))
                    .set("cfg", J::s(cfg.describe()))
                    .set("family", J::s(fam.name()))
                    .set("run_seed", J::UInt(cfg.seed))
                    .set("shard_seed", J::UInt(p.seed))
                    .set("run_index", J::UInt(i));
                shard.add_violations(vs, &replay);
            }
            break;
        }
        shard.evaluations += 1;
        shard.stat(&format!("runs:{}", fam.name()), 1);
        shard.distinct.insert(out.sig);
        if out.nontrivial {
            shard.nontrivial.insert(out.sig);
            shard.stat(&format!("nontrivial:{}", fam.name()), 1);
        }
        let mut vs = payload::take_violations();
        // Whatever monitor fires in a family that exists to exercise one property (handle churn, stream
        // creation / removal during traffic) is also a finding about that property: the operation was
        // supposed to be invisible.
        let also = fam.also();
        if !also.is_empty() {
            for v in vs.iter_mut() {
                if !v.prop.contains(&also[1..]) {
                    v.prop = payload::intern(format!("{}{}", v.prop, also));
                }
            }
        }
        // A stream published at a lapped position (open finding, C10) removes back-pressure for
        // the whole queue: everything else such a run reports is a consequence of that one defect.
        const LAPPED: &str = "add-stream-start:shared-parent-advanced-during-call";
        if fam == Family::AddStreamShared && out.add_stream_on_busy_shared_parent && !vs.is_empty() {
            // Known call shape: snapshot and publication of the new stream are separate steps, the
            // parent advanced in between (a sibling receive overlapped the call). The new stream may
            // start lapped or be lapped right after its first value; either way back-pressure is gone
            // for the whole queue and every monitor can fire. One finding, one signature.
            let before = vs.len();
            let mut first = vs.remove(0);
            if let Some(i) = vs.iter().position(|v| v.sig == LAPPED) {
                first = vs.remove(i);
            }
            first.detail = format!("[add_stream overlapped by a sibling consumer of the parent stream] {}", first.detail);
            first.sig = LAPPED.to_string();
            first.prop = "C10";
            first.rule = "add-stream-start";
            vs = vec![first];
            shard.stat("suppressed_as_consequence_of_lapped_add_stream", (before - 1) as u64);
        }
        if !vs.is_empty() {
            let replay = J::obj()
                .set("engine", J::s("conc"))
                .set("cfg", J::s(cfg.describe()))
                .set("family", J::s(fam.name()))
                .set("run_seed", J::UInt(cfg.seed))
                .set("shard_seed", J::UInt(p.seed))
                .set("run_index", J::UInt(i))
                .set("history", hist::dump(&out.history, 3000));
            shard.add_violations(vs, &replay);
            shard.stat("runs_with_violation", 1);
            if shard.violations.len() >= 12 {
                break;
            }
        }
        if shard.samples.len() < 2 && out.nontrivial {
            shard.samples.push(
                J::obj()
                    .set("cfg", J::s(cfg.describe()))
                    .set("flags", J::Arr(out.flags.iter().map(|(k, v)| J::s(format!("{}={}", k, v))).collect()))
                    .set("history", hist::dump(&out.history, 80)),
            );
        }
        if let Some(e) = hooks::take_harness_error() {
            shard.inconclusive.push(format!("harness error: {} in {}", e, cfg.describe()));
            break;
        }
        i += 1;
    }
}

pub fn parse_plan(text: &str) -> Vec<Stall> {
    let mut v = Vec::new();
    for item in text.split(',') {
        let f: Vec<&str> = item.split(':').collect();
        if f.len() < 4 {
            continue;
        }
        if let Some(site) = hooks::site_by_name(f[0]) {
            v.push(Stall {
                site,
                roles: f[1].parse().unwrap_or(7),
                nth: f[2].parse().unwrap_or(1),
                events: f[3].parse().unwrap_or(10),
                until: f.get(4).and_then(|n| hooks::site_by_name(n)),
                gate: f.get(5).and_then(|n| hooks::site_by_name(n)),
                cap_us: 2000,
                max_pauses: 1000,
            });
        }
    }
    v
}
