//! mq-churn: memory behaviour (C16, C17).
//!  * teardown : counting allocator, live bytes after the last handle is dropped == before creation
//!  * growth   : fixed operating handle set, add_stream/clone/drop/into_single cycles, bounded growth
//!  * stress   : multi-threaded reclamation churn for AddressSanitizer / Miri (C16)
use std::sync::atomic::Ordering::SeqCst;
use std::sync::atomic::{AtomicBool, AtomicU32, AtomicU64};
use std::sync::Arc;
use std::time::{Duration, Instant};

use crate::api::{self, Flavour, RecvKind, RecvOut, RxH, SendOut, TxH, WaitKind};
use crate::calloc;
use crate::hist;
use crate::hooks::{self, site, Policy, Stall};
use crate::out::J;
use crate::payload::{self, violation};
use crate::report::Shard;
use crate::rng::{Hasher64, Rng};
use crate::seq::{self, SeqCfg, St};

// ------------------------------------------------------------------ teardown (C17a)

fn scripted_lifecycle(cfg: &SeqCfg, seed: u64, len: usize, order_pick: u64) -> (u64, usize) {
    let mut rng = Rng::new(seed);
    let mut st = St::new(cfg.clone(), 0x1000);
    for step in 0..len {
        match seq::random_cmd(&st, &mut rng, step as f64 / len as f64) {
            Some(c) => st.exec(c),
            None => break,
        }
    }
    let nh = st.txs.len() + st.rxs.len();
    let mut order: Vec<usize> = (0..nh).collect();
    let mut orng = Rng::new(order_pick);
    orng.shuffle(&mut order);
    let (sig, _) = st.teardown(&order);
    (sig.get(), nh)
}

pub fn run_teardown(seed: u64, runs: u64, budget_ms: u64, shard: &mut Shard) {
    let t0 = Instant::now();
    let mut rng = Rng::new(seed);
    hooks::thread_begin(0, 0, seed, Policy::None, &[]);
    api::STEP_LIMIT.store(0, SeqCst);
    hist::set_enabled(false);
    let cfgs = seq::default_cfgs(false);
    // make sure every lazily initialised process global exists before anything is measured
    for c in cfgs.iter().take(40) {
        scripted_lifecycle(c, 1, 30, 1);
    }
    payload::take_violations();
    payload::reset_ledger();
    let mut i = 0;
    while i < runs {
        if budget_ms != 0 && t0.elapsed().as_millis() as u64 > budget_ms {
            break;
        }
        let cfg = rng.pick(&cfgs).clone();
        let s = rng.next();
        let len = 5 + rng.below(120) as usize;
        let order_pick = rng.next();
        // warm-up with the very same script (same allocation pattern), then measure
        scripted_lifecycle(&cfg, s, len, order_pick);
        payload::take_violations();
        payload::reset_ledger();
        api::reset_ids();
        let (b0, k0) = calloc::live();
        let (sig, nh) = scripted_lifecycle(&cfg, s, len, order_pick);
        let (b1, k1) = calloc::live();
        let _ = payload::take_violations();
        payload::reset_ledger();
        api::reset_ids();
        shard.evaluations += 1;
        shard.distinct.insert(sig);
        if nh >= 2 && len > 20 {
            shard.nontrivial.insert(sig);
        }
        if b1 != b0 || k1 != k0 {
            violation(
                "C17",
                "teardown-leak",
                "teardown-leak:bytes-not-returned".to_string(),
                format!(
                    "after the last handle was dropped {} bytes in {} blocks allocated during the queue's life were still live (cfg: {}, script seed {}, {} calls, {} handles at teardown)",
                    b1 - b0,
                    k1 - k0,
                    cfg.describe(),
                    s,
                    len,
                    nh
                ),
            );
            let vs = payload::take_violations();
            let replay = J::obj()
                .set("engine", J::s("churn-teardown"))
                .set("cfg", J::s(cfg.describe()))
                .set("script_seed", J::UInt(s))
                .set("len", J::UInt(len as u64))
                .set("leaked_bytes", J::Int(b1 - b0))
                .set("leaked_blocks", J::Int(k1 - k0));
            shard.add_violations(vs, &replay);
            shard.stat_max("max_leaked_bytes", (b1 - b0).max(0) as u64);
        }
        if shard.samples.len() < 2 {
            shard.samples.push(
                J::obj()
                    .set("cfg", J::s(cfg.describe()))
                    .set("script_seed", J::UInt(s))
                    .set("calls", J::UInt(len as u64))
                    .set("live_bytes_before", J::Int(b0))
                    .set("live_bytes_after_teardown", J::Int(b1)),
            );
        }
        i += 1;
    }
    hist::set_enabled(true);
    hooks::thread_end();
}

// ------------------------------------------------------------------ growth (C17b)

#[derive(Clone, Copy, Debug)]
enum Cycle {
    AddStreamDrop,
    CloneRxDrop,
    CloneTxDrop,
    SingleMulti,
    AddStreamCloneDropBoth,
}

fn one_cycle(tx: &TxH, rx: &mut RxH, c: Cycle, id: &mut u64) {
    one_cycle_kind(tx, rx, c, id, RecvKind::TryRecv);
}

/// `kind`: the only receive entry point the fixed receiver is ever operated through
/// returns the number of sends accepted during the cycle
fn one_cycle_kind(tx: &TxH, rx: &mut RxH, c: Cycle, id: &mut u64, kind: RecvKind) -> u32 {
    let mut accepted = 0u32;
    match c {
        Cycle::AddStreamDrop => {
            if let Some(mut n) = rx.add_stream(false) {
                n.recv_kind(RecvKind::TryRecv);
                n.drop_rx();
            }
        }
        Cycle::CloneRxDrop => {
            // drop of a NON-last handle of the stream
            if let Some(n) = rx.clone_rx() {
                n.drop_rx();
            }
        }
        Cycle::CloneTxDrop => {
            let n = tx.clone_tx();
            if let SendOut::Ok = n.try_send(*id) {
                accepted += 1;
                if kind.blocking() {
                    rx.recv_kind(kind);
                }
            }
            *id += 1;
            n.drop_tx(false);
        }
        Cycle::SingleMulti => {
            if let Some(true) = rx.into_single() {
                rx.into_multi();
            }
        }
        Cycle::AddStreamCloneDropBoth => {
            if let Some(n) = rx.add_stream(false) {
                if let Some(c2) = n.clone_rx() {
                    c2.drop_rx();
                }
                n.drop_rx();
            }
        }
    }
    // the fixed handles keep operating
    if let SendOut::Ok = tx.try_send(*id) {
        accepted += 1;
        if kind.blocking() {
            // exactly one value is there for this stream: the blocking entry point returns it
            rx.recv_kind(kind);
        }
    }
    *id += 1;
    if !kind.blocking() {
        let mut guard = 0;
        while let RecvOut::Val(_) = rx.recv_kind(kind) {
            guard += 1;
            if guard > 64 {
                break;
            }
        }
    }
    accepted
}

const GROWTH_BOUND: i64 = 16 * 1024;
/// retire lists hold at most a few dozen objects once every handle has announced the epoch
const GROWTH_BLOCKS_CONCURRENT: i64 = 150;

pub fn run_growth(seed: u64, runs: u64, budget_ms: u64, max_cycles: u64, shard: &mut Shard) {
    let t0 = Instant::now();
    let mut rng = Rng::new(seed);
    hooks::thread_begin(0, 0, seed, Policy::None, &[]);
    hist::set_enabled(false);
    let mut i = 0;
    while i < runs {
        if budget_ms != 0 && t0.elapsed().as_millis() as u64 > budget_ms {
            break;
        }
        let fl = if rng.chance(1, 2) { Flavour::Broadcast } else { Flavour::Mpmc };
        let fut = rng.chance(1, 3);
        let cap = *rng.pick(&[1u64, 2, 4, 8]);
        let with_nonlast_drop = rng.chance(1, 2);
        let kinds: Vec<Cycle> = {
            let mut v = vec![Cycle::CloneTxDrop, Cycle::SingleMulti];
            if fl == Flavour::Broadcast {
                v.push(Cycle::AddStreamDrop);
                v.push(Cycle::AddStreamDrop);
            }
            if with_nonlast_drop {
                v.push(Cycle::CloneRxDrop);
                if fl == Flavour::Broadcast {
                    v.push(Cycle::AddStreamCloneDropBoth);
                }
            }
            v
        };
        let cycles = *rng.pick(&[100u64, 1000, 10_000, 100_000]);
        let cycles = cycles.min(max_cycles);
        let (tx, mut rx) = api::create(fl, fut, cap, WaitKind::Busy, None);
        // a second fixed receiver that is only ever operated through ONE receive entry point
        // (every entry point must keep the handle's reclamation token up to date)
        let mut fixed: Option<(RxH, RecvKind)> = None;
        if fl == Flavour::Broadcast {
            if let Some(mut f) = rx.add_stream(false) {
                let want_uni = rng.chance(1, 2);
                if want_uni {
                    f.into_single();
                }
                let mut ks = f.supported_kinds(true);
                ks.retain(|k| *k != RecvKind::IterNext);
                if !fut && rng.chance(1, 5) {
                    let with = f.is_uni() && rng.chance(1, 2);
                    f.into_blocking_iter(with);
                    ks = vec![RecvKind::IterNext];
                }
                let k = *rng.pick(&ks);
                fixed = Some((f, k));
            }
        } else if rng.chance(1, 2) {
            // move-out queue: one stream only; operate the one fixed receiver through one entry point
            let want_uni = rng.chance(1, 2);
            if want_uni {
                rx.into_single();
            }
        }
        let main_kind = if fl == Flavour::Mpmc {
            let ks = rx.supported_kinds(true);
            *rng.pick(&ks)
        } else {
            RecvKind::TryRecv
        };
        let fixed_name = match &fixed {
            Some((f, k)) => format!("{}::{:?}", f.kind_name(), k),
            None => format!("{}::{:?}", rx.kind_name(), main_kind),
        };
        let mut id = 1u64;
        let warm = 64u64;
        if rng.chance(1, 6) {
            // every receiver leaves first: the surviving sender keeps "operating" (its sends are refused
            // as Disconnected) while sender handles are cloned and dropped
            if let Some((f, _)) = fixed.take() {
                f.drop_rx();
            }
            let mut peak: i64 = 0;
            let (dead_tx, dead_rx) = (tx, rx);
            dead_rx.drop_rx();
            for _ in 0..warm {
                let n = dead_tx.clone_tx();
                n.try_send(id);
                id += 1;
                n.drop_tx(false);
                dead_tx.try_send(id);
                id += 1;
            }
            let (b0, _) = calloc::live();
            let mut done = 0u64;
            for n in 0..cycles {
                let c = dead_tx.clone_tx();
                c.try_send(id);
                id += 1;
                c.drop_tx(false);
                dead_tx.try_send(id);
                id += 1;
                done = n + 1;
                if n % 64 == 63 {
                    let (b, _) = calloc::live();
                    peak = peak.max(b - b0);
                    if b - b0 > GROWTH_BOUND {
                        break;
                    }
                }
            }
            let mut sig = Hasher64::new();
            sig.add_str(&format!("no-receivers{:?}{}{}{}", fl, fut, cap, cycles));
            shard.evaluations += 1;
            shard.distinct.insert(sig.get());
            shard.nontrivial.insert(sig.get());
            shard.stat("churn_cycles", done);
            shard.stat("runs_with_every_receiver_gone", 1);
            shard.stat_max("peak_growth_bytes", peak.max(0) as u64);
            if peak > GROWTH_BOUND {
                violation(
                    "C17",
                    "churn-growth",
                    "churn-growth:no-receivers-left".to_string(),
                    format!(
                        "memory held by the queue grew by {} bytes after {} sender clone/drop cycles although the surviving sender kept operating (every receiver had been dropped before; bound {} bytes; {} {} cap={})",
                        peak, done, GROWTH_BOUND, fl.name(), if fut { "futures" } else { "plain" }, cap
                    ),
                );
                let vs = payload::take_violations();
                let replay = J::obj().set("engine", J::s("churn-growth")).set("cfg", J::s(format!("no receivers; {} fut={} cap={} cycles={}", fl.name(), fut, cap, cycles)));
                shard.add_violations(vs, &replay);
            }
            dead_tx.drop_tx(false);
            payload::take_violations();
            payload::reset_ledger();
            api::reset_ids();
            i += 1;
            continue;
        }
        let mut cycle = |rx: &mut RxH, fixed: &mut Option<(RxH, RecvKind)>, c: Cycle, id: &mut u64| {
            let accepted = one_cycle_kind(&tx, rx, c, id, main_kind);
            if let Some((f, k)) = fixed.as_mut() {
                // every value accepted in this cycle is waiting on the fixed stream as well
                if k.blocking() {
                    for _ in 0..accepted {
                        f.recv_kind(*k);
                    }
                } else {
                    let mut guard = 0;
                    while let RecvOut::Val(_) = f.recv_kind(*k) {
                        guard += 1;
                        if guard > 64 {
                            break;
                        }
                    }
                }
            }
        };
        for _ in 0..warm {
            let c = *rng.pick(&kinds);
            cycle(&mut rx, &mut fixed, c, &mut id);
        }
        let (b0, _) = calloc::live();
        let mut peak: i64 = 0;
        let mut done = 0u64;
        for n in 0..cycles {
            let c = *rng.pick(&kinds);
            cycle(&mut rx, &mut fixed, c, &mut id);
            done = n + 1;
            if n % 64 == 63 {
                let (b, _) = calloc::live();
                peak = peak.max(b - b0);
                if b - b0 > GROWTH_BOUND {
                    break;
                }
            }
        }
        let (b1, _) = calloc::live();
        peak = peak.max(b1 - b0);
        let mut sig = Hasher64::new();
        sig.add_str(&format!("{:?}{}{}{}{:?}{}", fl, fut, cap, with_nonlast_drop, cycles, fixed_name));
        shard.stat(&format!("fixed_receiver_operated_only_through:{}", fixed_name), 1);
        shard.evaluations += 1;
        shard.distinct.insert(sig.get());
        shard.nontrivial.insert(sig.get());
        shard.stat("churn_cycles", done);
        shard.stat_max("peak_growth_bytes", peak.max(0) as u64);
        if peak > GROWTH_BOUND {
            violation(
                "C17",
                "churn-growth",
                format!("churn-growth:{}", if with_nonlast_drop { "with-non-last-handle-drops" } else { "last-handle-drops-only" }),
                format!(
                    "memory held by the queue grew by {} bytes after {} add/clone/drop cycles with a fixed set of operating handles (bound {} bytes; {} {} cap={} non-last-drops={})",
                    peak,
                    done,
                    GROWTH_BOUND,
                    fl.name(),
                    if fut { "futures" } else { "plain" },
                    cap,
                    with_nonlast_drop
                ),
            );
            let vs = payload::take_violations();
            let replay = J::obj()
                .set("engine", J::s("churn-growth"))
                .set("cfg", J::s(format!("{} fut={} cap={} nonlast={} cycles={}", fl.name(), fut, cap, with_nonlast_drop, cycles)))
                .set("growth_bytes", J::Int(peak));
            shard.add_violations(vs, &replay);
        }
        if shard.samples.len() < 3 {
            shard.samples.push(
                J::obj()
                    .set("cfg", J::s(format!("{} fut={} cap={} nonlast={} cycles={}", fl.name(), fut, cap, with_nonlast_drop, done)))
                    .set("growth_bytes_after_warmup", J::Int(peak)),
            );
        }
        drop(cycle);
        if let Some((f, _)) = fixed.take() {
            f.drop_rx();
        }
        tx.drop_tx(false);
        rx.drop_rx();
        payload::take_violations();
        payload::reset_ledger();
        api::reset_ids();
        i += 1;
    }
    hist::set_enabled(true);
    hooks::thread_end();
}

// ------------------------------------------------------------------ stress (C16, also C17 concurrent)

struct StressShared {
    go: AtomicBool,
    stop: AtomicBool,
    hold: AtomicBool,
    held: AtomicU32,
    sent: AtomicU64,
    recvd: AtomicU64,
    cycles: AtomicU64,
    round: AtomicU64,
    round_acks: AtomicU64,
}

/// Plateau protocol: everybody pauses here; the supervisor then asks for a few "rounds" in which
/// every thread performs exactly one operation (so every handle announces the current epoch and
/// the churners drive the reclamation forward) before live memory is read. This makes the
/// measurement independent of how long some thread happened to be descheduled.
fn hold_point(sh: &StressShared, my_round: &mut u64, op: &mut dyn FnMut()) {
    if sh.hold.load(SeqCst) {
        sh.held.fetch_add(1, SeqCst);
        while sh.hold.load(SeqCst) && !sh.stop.load(SeqCst) {
            let r = sh.round.load(SeqCst);
            if r != *my_round {
                *my_round = r;
                op();
                sh.round_acks.fetch_add(1, SeqCst);
            }
            std::thread::yield_now();
        }
        sh.held.fetch_sub(1, SeqCst);
    }
}

pub struct StressCfg {
    pub fl: Flavour,
    pub fut: bool,
    pub cap: u64,
    pub writers: u32,
    pub readers: u32,
    pub churners: u32,
    /// threads whose ONLY handle is a stream handle handed to them by a churner, which they drop
    pub droppers: u32,
    pub idle_handles: bool,
    pub cycles_per_churner: u64,
    pub policy: Policy,
    pub plan: Vec<Stall>,
    pub seed: u64,
    pub measure_growth: bool,
}

impl StressCfg {
    pub fn describe(&self) -> String {
        format!(
            "stress {}{} cap={} writers={} readers={} churners={} droppers={} idle_handles={} cycles={} policy={} plan=[{}]",
            self.fl.name(),
            if self.fut { "-fut" } else { "" },
            self.cap,
            self.writers,
            self.readers,
            self.churners,
            self.droppers,
            self.idle_handles,
            self.cycles_per_churner,
            self.policy.name(),
            self.plan.iter().map(|s| s.show()).collect::<Vec<_>>().join(", ")
        )
    }
}

pub fn gen_stress(rng: &mut Rng, small: bool) -> StressCfg {
    let fl = if rng.chance(3, 4) { Flavour::Broadcast } else { Flavour::Mpmc };
    let policy = match rng.below(3) {
        0 => Policy::None,
        1 => Policy::Yield,
        _ => Policy::Stall,
    };
    let mut plan = Vec::new();
    if policy == Policy::Stall {
        let p = 1 << crate::conc::ROLE_PRODUCER;
        let a = (1 << crate::conc::ROLE_AUX) | (1 << crate::conc::ROLE_CONSUMER);
        let sites = [
            (site::GMD_LOADED_PTR, p),
            (site::GMD_BETWEEN_READERS, p),
            (site::GMD_BETWEEN_READERS, p),
            (site::GMD_BEFORE_RECHECK, p),
            (site::MM_TRYFREE_TOKEN, a | p),
            (site::MM_EPOCH_BUMP, a | p),
            (site::MM_DEALLOC, a | p),
            (site::MM_UPDATE_TOKEN, a | p),
            (site::MM_REMOVE_TOKEN, a | p),
            (site::AS_BEFORE_CAS, a),
            (site::AS_PUBLISHED, a),
            (site::RR_PUBLISHED, a),
            (site::RR_RETIRED, a),
            (site::RX_UNSUB_REMOVED, a),
            (site::TS_ENTRY, p),
        ];
        // a thread that has just loaded the stream-list pointer pauses until some other thread has
        // executed deferred frees: only safe if its own token really holds reclamation back
        for (s, roles) in [(site::RR_LOADED, a), (site::AS_LOADED, a), (site::GMD_LOADED_PTR, p), (site::GMD_BETWEEN_READERS, p)].iter() {
            if rng.chance(1, 2) {
                plan.push(Stall {
                    site: *s,
                    roles: *roles,
                    nth: 1 + rng.below(30) as u32,
                    events: rng.below(20) as u32,
                    until: Some(site::MM_DEALLOC),
                    gate: None,
                    cap_us: 1500,
                    max_pauses: 40,
                });
            }
        }
        for _ in 0..(1 + rng.below(4)) {
            let (s, roles) = *rng.pick(&sites);
            plan.push(Stall {
                site: s,
                roles,
                nth: 1 + rng.below(if small { 20 } else { 400 }) as u32,
                events: 10 + rng.below(300) as u32,
                until: None,
                gate: None,
                cap_us: 200,
                max_pauses: 0,
            });
        }
    }
    StressCfg {
        fl,
        fut: rng.chance(1, 4),
        cap: *rng.pick(&[1u64, 2, 2, 4]),
        writers: 1 + rng.below(2) as u32,
        readers: 1 + rng.below(2) as u32,
        churners: 1 + rng.below(2) as u32,
        droppers: if fl == Flavour::Broadcast { rng.below(3) as u32 } else { 0 },
        idle_handles: rng.chance(1, 4),
        cycles_per_churner: if small { 30 + rng.below(30) } else { 300 + rng.below(1500) },
        policy,
        plan,
        seed: rng.next(),
        measure_growth: false,
    }
}

/// returns (signature, deferred frees executed, frees while a writer was scanning)
pub fn run_stress(cfg: &StressCfg, shard: &mut Shard) -> (u64, u64, bool) {
    payload::reset_ledger();
    payload::set_pod_mode(cfg!(miri) && cfg.fl == Flavour::Mpmc);
    api::reset_ids();
    hist::clock_reset();
    hist::set_enabled(false);
    let dealloc_before = hooks::SITE_HITS[site::MM_DEALLOC as usize].load(SeqCst);
    let mut rng = Rng::new(cfg.seed);
    hooks::thread_begin(0, crate::conc::ROLE_MAIN, cfg.seed, Policy::None, &[]);
    let (tx0, rx0) = api::create(cfg.fl, cfg.fut, cfg.cap, WaitKind::Busy, None);
    let sh = Arc::new(StressShared {
        go: AtomicBool::new(false),
        stop: AtomicBool::new(false),
        hold: AtomicBool::new(false),
        held: AtomicU32::new(0),
        sent: AtomicU64::new(0),
        recvd: AtomicU64::new(0),
        cycles: AtomicU64::new(0),
        round: AtomicU64::new(0),
        round_acks: AtomicU64::new(0),
    });
    let mut joins = Vec::new();
    let mut tid = 1u32;
    // idle handles: registered, never operate
    let mut idle: Vec<(Option<TxH>, Option<RxH>)> = Vec::new();
    if cfg.idle_handles {
        idle.push((Some(tx0.clone_tx()), rx0.clone_rx()));
    }
    // readers: each owns a handle of the base stream (shared) - they keep the queue moving
    let mut reader_handles = Vec::new();
    for _ in 0..cfg.readers {
        reader_handles.push(rx0.clone_rx().expect("clone"));
    }
    // churners: each owns its own parent handle (clone of the base stream)
    let mut churn_handles = Vec::new();
    for _ in 0..cfg.churners {
        // broadcast: each churner owns its parent stream (sole handle), so add_stream never runs
        // on a stream that another handle is consuming (open finding on that call shape, C10)
        let parent = if cfg.fl == Flavour::Broadcast {
            rx0.add_stream(false).expect("add_stream")
        } else {
            rx0.clone_rx().expect("clone")
        };
        churn_handles.push((tx0.clone_tx(), parent));
    }
    let mut writer_handles = Vec::new();
    for _ in 0..cfg.writers {
        writer_handles.push(tx0.clone_tx());
    }
    let total_threads = cfg.writers + cfg.readers + cfg.churners;
    // hand-off of freshly created stream handles to the dropper threads
    // bounded: handles waiting in the hand-off queue are live streams held by the harness, their number
    // must not grow with the number of cycles
    let (hand_tx, hand_rx) = std::sync::mpsc::sync_channel::<RxH>(2);
    let hand_rx = Arc::new(std::sync::Mutex::new(hand_rx));
    let mut dropper_joins = Vec::new();
    for d in 0..cfg.droppers {
        let sh = sh.clone();
        let seed = rng.next();
        let policy = cfg.policy;
        let plan = cfg.plan.clone();
        let my = 20 + d;
        let rxq = hand_rx.clone();
        dropper_joins.push(std::thread::spawn(move || {
            hooks::thread_begin(my, crate::conc::ROLE_AUX, seed, policy, &plan);
            hist::set_enabled(false);
            loop {
                let got = {
                    let g = rxq.lock().unwrap();
                    g.recv_timeout(Duration::from_millis(2))
                };
                match got {
                    Ok(mut h) => {
                        h.recv_kind(RecvKind::TryRecv);
                        // the only handle this thread owns
                        h.drop_rx();
                    }
                    Err(std::sync::mpsc::RecvTimeoutError::Timeout) => {
                        if sh.stop.load(SeqCst) {
                            break;
                        }
                    }
                    Err(_) => break,
                }
            }
            hooks::thread_end();
        }));
    }
    let have_droppers = cfg.droppers > 0;
    for tx in writer_handles {
        let sh = sh.clone();
        let seed = rng.next();
        let policy = cfg.policy;
        let plan = cfg.plan.clone();
        let my = tid;
        joins.push(std::thread::spawn(move || {
            hooks::thread_begin(my, crate::conc::ROLE_PRODUCER, seed, policy, &plan);
            hist::set_enabled(false);
            while !sh.go.load(SeqCst) {
                std::thread::yield_now();
            }
            let mut id = (my as u64) << 40;
            let mut n = 0u64;
            let mut my_round = 0u64;
            while !sh.stop.load(SeqCst) {
                if let SendOut::Ok = tx.try_send(id) {
                    sh.sent.fetch_add(1, SeqCst);
                }
                id += 1;
                n += 1;
                if n % 16 == 0 {
                    hold_point(&sh, &mut my_round, &mut || {
                        tx.try_send(id);
                    });
                    id += 1;
                    std::thread::yield_now();
                }
            }
            tx.drop_tx(false);
            hooks::thread_end();
        }));
        tid += 1;
    }
    for mut rx in reader_handles {
        let sh = sh.clone();
        let seed = rng.next();
        let policy = cfg.policy;
        let plan = cfg.plan.clone();
        let my = tid;
        joins.push(std::thread::spawn(move || {
            hooks::thread_begin(my, crate::conc::ROLE_CONSUMER, seed, policy, &plan);
            hist::set_enabled(false);
            while !sh.go.load(SeqCst) {
                std::thread::yield_now();
            }
            let mut n = 0u64;
            let mut my_round = 0u64;
            while !sh.stop.load(SeqCst) {
                if let RecvOut::Val(_) = rx.recv_kind(RecvKind::TryRecv) {
                    sh.recvd.fetch_add(1, SeqCst);
                }
                n += 1;
                if n % 16 == 0 {
                    hold_point(&sh, &mut my_round, &mut || {
                        rx.recv_kind(RecvKind::TryRecv);
                    });
                    std::thread::yield_now();
                }
            }
            rx.drop_rx();
            hooks::thread_end();
        }));
        tid += 1;
    }
    for (ctx, mut crx) in churn_handles {
        let sh = sh.clone();
        let seed = rng.next();
        let policy = cfg.policy;
        let plan = cfg.plan.clone();
        let my = tid;
        let cycles = cfg.cycles_per_churner;
        let fl = cfg.fl;
        let hand = hand_tx.clone();
        joins.push(std::thread::spawn(move || {
            hooks::thread_begin(my, crate::conc::ROLE_AUX, seed, policy, &plan);
            hist::set_enabled(false);
            let mut r = Rng::new(seed);
            while !sh.go.load(SeqCst) {
                std::thread::yield_now();
            }
            let mut id = (my as u64) << 40;
            let mut my_round = 0u64;
            for n in 0..cycles {
                if sh.stop.load(SeqCst) {
                    break;
                }
                let kinds: &[Cycle] = if fl == Flavour::Broadcast {
                    &[
                        Cycle::AddStreamDrop,
                        Cycle::AddStreamDrop,
                        Cycle::CloneRxDrop,
                        Cycle::CloneTxDrop,
                        Cycle::AddStreamCloneDropBoth,
                    ]
                } else {
                    &[Cycle::CloneRxDrop, Cycle::CloneTxDrop]
                };
                let c = *r.pick(kinds);
                if have_droppers && r.chance(1, 2) {
                    // create a stream and hand its only handle to a dropper thread
                    if let Some(n) = crx.add_stream(false) {
                        if let Err(e) = hand.try_send(n) {
                            // queue full (or closed): drop it here
                            match e {
                                std::sync::mpsc::TrySendError::Full(h) | std::sync::mpsc::TrySendError::Disconnected(h) => h.drop_rx(),
                            }
                        }
                    }
                    ctx.try_send(id);
                    id += 1;
                    while let RecvOut::Val(_) = crx.recv_kind(RecvKind::TryRecv) {}
                } else {
                    one_cycle(&ctx, &mut crx, c, &mut id);
                }
                sh.cycles.fetch_add(1, SeqCst);
                if n % 8 == 0 {
                    hold_point(&sh, &mut my_round, &mut || one_cycle(&ctx, &mut crx, Cycle::CloneTxDrop, &mut id));
                }
            }
            // keep consuming so that the writers are not blocked by this stream handle
            while !sh.stop.load(SeqCst) {
                crx.recv_kind(RecvKind::TryRecv);
                hold_point(&sh, &mut my_round, &mut || one_cycle(&ctx, &mut crx, Cycle::CloneTxDrop, &mut id));
                std::thread::yield_now();
            }
            ctx.drop_tx(false);
            crx.drop_rx();
            hooks::thread_end();
        }));
        tid += 1;
    }
    // main keeps its own handles operating too (they hold tokens)
    let mut rx0 = rx0;
    sh.go.store(true, SeqCst);
    let t0 = Instant::now();
    let target = cfg.cycles_per_churner * cfg.churners as u64;
    let mut growth_samples: Vec<i64> = Vec::new();
    let mut next_sample = target / 4;
    let mut base_live: Option<i64> = None;
    let mut base_bytes: i64 = 0;
    let mut base_hist: Vec<i64> = Vec::new();
    let mut last_hist: Vec<i64> = Vec::new();
    let mut id0 = 1u64;
    loop {
        let c = sh.cycles.load(SeqCst);
        if c >= target {
            break;
        }
        if !cfg!(miri) && t0.elapsed() > Duration::from_secs(60) {
            shard.inconclusive.push(format!("churn did not complete within the watchdog: {}", cfg.describe()));
            break;
        }
        tx0.try_send(id0);
        id0 += 1;
        rx0.recv_kind(RecvKind::TryRecv);
        if cfg.idle_handles {
            // idle handles never operate; nothing to do
        }
        if cfg.measure_growth && c >= next_sample && !cfg!(miri) {
            // plateau measurement: everybody pauses at a hold point
            sh.hold.store(true, SeqCst);
            let tw = Instant::now();
            while sh.held.load(SeqCst) < total_threads && tw.elapsed() < Duration::from_secs(5) {
                std::thread::yield_now();
            }
            if sh.held.load(SeqCst) == total_threads {
                // six rounds: every handle operates once per round, the churners retire and free
                let mut ok = true;
                for _ in 0..6 {
                    let want = sh.round_acks.load(SeqCst) + total_threads as u64;
                    sh.round.fetch_add(1, SeqCst);
                    tx0.try_send(id0);
                    id0 += 1;
                    while let RecvOut::Val(_) = rx0.recv_kind(RecvKind::TryRecv) {}
                    let tr = Instant::now();
                    while sh.round_acks.load(SeqCst) < want {
                        std::thread::yield_now();
                        if tr.elapsed() > Duration::from_secs(5) {
                            ok = false;
                            break;
                        }
                    }
                }
                if ok {
                    // Live *blocks*, not bytes: the retire lists are Vecs that keep the capacity of
                    // their largest transient backlog (which depends on how long some thread was
                    // descheduled, not on the number of cycles); a leaked token / position / stream
                    // list is one more block each, a retained capacity is not.
                    let (bytes, blocks) = calloc::live();
                    match base_live {
                        None => {
                            base_live = Some(blocks);
                            base_bytes = bytes;
                            base_hist = calloc::size_histogram();
                        }
                        Some(b0) => {
                            last_hist = calloc::size_histogram();
                            growth_samples.push(blocks - b0);
                            shard.stat_max("peak_growth_bytes_concurrent(info)", (bytes - base_bytes).max(0) as u64);
                        }
                    }
                    shard.stat("plateau_measurements", 1);
                }
            }
            sh.hold.store(false, SeqCst);
            next_sample += target / 4;
        }
        std::thread::yield_now();
    }
    sh.stop.store(true, SeqCst);
    drop(hand_tx);
    for j in joins {
        let _ = j.join();
    }
    for j in dropper_joins {
        let _ = j.join();
    }
    // handles still in the hand-off queue
    if let Ok(g) = hand_rx.lock() {
        while let Ok(h) = g.try_recv() {
            h.drop_rx();
        }
    }
    hooks::watch_off();
    for (t, r) in idle.drain(..) {
        if let Some(t) = t {
            t.drop_tx(false);
        }
        if let Some(r) = r {
            r.drop_rx();
        }
    }
    tx0.drop_tx(false);
    rx0.drop_rx();
    hooks::thread_end();
    hist::set_enabled(true);
    let deallocs = hooks::SITE_HITS[site::MM_DEALLOC as usize].load(SeqCst) - dealloc_before;
    shard.stat("churn_cycles", sh.cycles.load(SeqCst));
    shard.stat("deferred_frees_executed", deallocs);
    shard.stat("values_sent", sh.sent.load(SeqCst));
    shard.stat("values_received", sh.recvd.load(SeqCst));
    shard.stat("stalls_fired", hooks::STALLS_FIRED.swap(0, SeqCst));
    if cfg.measure_growth {
        if let Some(mx) = growth_samples.iter().max() {
            shard.stat_max("peak_growth_blocks_concurrent", (*mx).max(0) as u64);
            if *mx > GROWTH_BLOCKS_CONCURRENT {
                violation(
                    "C17",
                    "churn-growth",
                    "churn-growth:concurrent".to_string(),
                    format!(
                        "with concurrent traffic the number of live allocations grew by {} between plateau measurements taken after every handle had operated six more times ({} cycles; bound {} blocks): {} | growth by block size: {:?}",
                        mx,
                        sh.cycles.load(SeqCst),
                        GROWTH_BLOCKS_CONCURRENT,
                        cfg.describe(),
                        base_hist.iter().zip(last_hist.iter()).enumerate().filter(|(_, (a, b))| *b - *a > 8).map(|(i, (a, b))| (i, b - a)).collect::<Vec<_>>()
                    ),
                );
            }
        }
    }
    // ledger still applies
    let alive = payload::alive_serials();
    if !alive.is_empty() {
        violation(
            "C05",
            "never-dropped",
            "never-dropped:after-teardown".to_string(),
            format!("{} payload instance(s) alive after every handle was dropped ({})", alive.len(), cfg.describe()),
        );
    }
    let vs = payload::take_violations();
    if !vs.is_empty() {
        let replay = J::obj().set("engine", J::s("churn-stress")).set("cfg", J::s(cfg.describe())).set("run_seed", J::UInt(cfg.seed));
        shard.add_violations(vs, &replay);
    }
    let mut sig = Hasher64::new();
    sig.add_str(&cfg.describe());
    sig.add(deallocs.min(1 << 20) >> 4);
    let min_frees = if cfg!(miri) { 20 } else { 100 };
    (sig.get(), deallocs, deallocs >= min_frees && !cfg.idle_handles || (cfg.idle_handles && sh.cycles.load(SeqCst) >= target))
}

pub fn run_stress_many(seed: u64, runs: u64, budget_ms: u64, small: bool, measure_growth: bool, fl: Option<Flavour>, shard: &mut Shard) {
    let t0 = Instant::now();
    let mut rng = Rng::new(seed);
    let mut i = 0;
    while i < runs {
        if budget_ms != 0 && t0.elapsed().as_millis() as u64 > budget_ms {
            break;
        }
        let mut cfg = gen_stress(&mut rng, small);
        if let Some(f) = fl {
            cfg.fl = f;
        }
        cfg.measure_growth = measure_growth;
        if measure_growth {
            // the growth bound is about a fixed set of handles that keep operating: no idle handles, and no
            // handles parked in the hand-off queue of the dropper threads (both legitimately hold back
            // reclamation for as long as they exist)
            cfg.idle_handles = false;
            cfg.droppers = 0;
        }
        let (sig, _frees, nontrivial) = run_stress(&cfg, shard);
        shard.evaluations += 1;
        shard.distinct.insert(sig);
        if nontrivial {
            shard.nontrivial.insert(sig);
        }
        if shard.samples.len() < 2 {
            shard.samples.push(J::obj().set("cfg", J::s(cfg.describe())).set("deferred_frees", J::UInt(_frees)));
        }
        if shard.violations.len() >= 8 || !shard.inconclusive.is_empty() {
            break;
        }
        i += 1;
    }
}
