//! Uniform wrappers over the twelve public handle types. Every call is logged at
//! the client boundary (hist) and wrapped in catch_unwind.
use std::panic::{catch_unwind, AssertUnwindSafe};
use std::sync::atomic::Ordering::{Relaxed, SeqCst};
use std::sync::atomic::AtomicU32;
use std::sync::mpsc::{TryRecvError, TrySendError};
use std::sync::Arc;

use futures::executor::{spawn, Notify, NotifyHandle, Spawn};
use futures::{Async, AsyncSink};

use multiqueue2 as mq;
use multiqueue2::verif_hooks as vh;
use multiqueue2::wait::Wait;

use crate::hist::{self, Op, Res, NO_POS};
use crate::hooks;
use crate::payload::{self, consume, view_op, Seen, Tracked, ViewFn};

pub type P = Tracked;

#[derive(Clone, Copy, Debug, PartialEq, Eq, Hash)]
pub enum Flavour {
    Broadcast,
    Mpmc,
}
impl Flavour {
    pub fn name(self) -> &'static str {
        match self {
            Flavour::Broadcast => "broadcast",
            Flavour::Mpmc => "mpmc",
        }
    }
}

#[derive(Clone, Copy, Debug, PartialEq, Eq, Hash)]
pub enum WaitKind {
    Busy,
    Yield(usize, usize),
    Block(usize, usize),
}
impl WaitKind {
    pub fn name(self) -> String {
        match self {
            WaitKind::Busy => "busy".into(),
            WaitKind::Yield(a, b) => format!("yield({},{})", a, b),
            WaitKind::Block(a, b) => format!("block({},{})", a, b),
        }
    }
}

/// one notification counter per task (the harness is the executor)
pub struct TaskNote {
    pub count: AtomicU32,
}
impl Notify for TaskNote {
    fn notify(&self, _id: usize) {
        self.count.fetch_add(1, SeqCst);
    }
}
pub fn new_note() -> (Arc<TaskNote>, NotifyHandle) {
    let n = Arc::new(TaskNote {
        count: AtomicU32::new(0),
    });
    let h = NotifyHandle::from(n.clone());
    (n, h)
}

static NEXT_HANDLE: AtomicU32 = AtomicU32::new(1);
static NEXT_STREAM: AtomicU32 = AtomicU32::new(1);
pub fn reset_ids() {
    NEXT_HANDLE.store(1, SeqCst);
    NEXT_STREAM.store(1, SeqCst);
}
fn new_handle_id() -> u32 {
    NEXT_HANDLE.fetch_add(1, SeqCst)
}
fn new_stream_id() -> u32 {
    NEXT_STREAM.fetch_add(1, SeqCst)
}

/// per-call own-step bound (0 = off); set by engines that decide "never waits inside the call"
pub static STEP_LIMIT: std::sync::atomic::AtomicU64 = std::sync::atomic::AtomicU64::new(0);

pub enum TxInner {
    B(mq::BroadcastSender<P>),
    M(mq::MPMCSender<P>),
    BF(Spawn<mq::BroadcastFutSender<P>>),
    MF(Spawn<mq::MPMCFutSender<P>>),
}

pub struct TxH {
    pub h: u32,
    pub inner: Option<TxInner>,
    pub note: Arc<TaskNote>,
    pub nh: NotifyHandle,
}

pub enum RxInner {
    B(mq::BroadcastReceiver<P>),
    BU(mq::BroadcastUniReceiver<P>),
    M(mq::MPMCReceiver<P>),
    MU(mq::MPMCUniReceiver<P>),
    BF(Spawn<mq::BroadcastFutReceiver<P>>),
    BFU(Spawn<mq::BroadcastFutUniReceiver<Seen, ViewFn, P>>),
    MF(Spawn<mq::MPMCFutReceiver<P>>),
    MFU(Spawn<mq::MPMCFutUniReceiver<Seen, ViewFn, P>>),
    /// any of the six consuming blocking iterators
    Iter(Box<dyn Iterator<Item = Seen> + Send>),
}

pub struct RxH {
    pub h: u32,
    pub stream: u32,
    pub inner: Option<RxInner>,
    pub note: Arc<TaskNote>,
    pub nh: NotifyHandle,
}

#[derive(Clone, Copy, Debug, PartialEq, Eq, Hash)]
pub enum RecvKind {
    TryRecv,
    Recv,
    TryView,
    RecvView,
    TryIter,
    TryIterWith,
    Poll,
    IterNext,
}

impl RecvKind {
    pub fn blocking(self) -> bool {
        matches!(self, RecvKind::Recv | RecvKind::RecvView | RecvKind::IterNext)
    }
    pub fn op(self) -> Op {
        match self {
            RecvKind::TryRecv => Op::TryRecv,
            RecvKind::Recv => Op::Recv,
            RecvKind::TryView => Op::TryView,
            RecvKind::RecvView => Op::RecvView,
            RecvKind::TryIter | RecvKind::TryIterWith => Op::TryIterNext,
            RecvKind::Poll => Op::Poll,
            RecvKind::IterNext => Op::IterNext,
        }
    }
}

pub enum Created {
    Plain(TxH, RxH),
}

pub fn create(fl: Flavour, fut: bool, cap: u64, wait: WaitKind, fut_spins: Option<(usize, usize)>) -> (TxH, RxH) {
    let (tx, rx) = match (fl, fut) {
        (Flavour::Broadcast, false) => {
            let (t, r) = match wait {
                WaitKind::Busy => mq::broadcast_queue_with(cap, mq::wait::BusyWait::new()),
                WaitKind::Yield(a, b) => {
                    mq::broadcast_queue_with(cap, mq::wait::YieldingWait::with_spins(a, b))
                }
                WaitKind::Block(a, b) => {
                    mq::broadcast_queue_with(cap, mq::wait::BlockingWait::with_spins(a, b))
                }
            };
            (TxInner::B(t), RxInner::B(r))
        }
        (Flavour::Mpmc, false) => {
            let (t, r) = match wait {
                WaitKind::Busy => mq::mpmc_queue_with(cap, mq::wait::BusyWait::new()),
                WaitKind::Yield(a, b) => {
                    mq::mpmc_queue_with(cap, mq::wait::YieldingWait::with_spins(a, b))
                }
                WaitKind::Block(a, b) => {
                    mq::mpmc_queue_with(cap, mq::wait::BlockingWait::with_spins(a, b))
                }
            };
            (TxInner::M(t), RxInner::M(r))
        }
        (Flavour::Broadcast, true) => {
            let (t, r) = match fut_spins {
                Some((a, b)) => mq::broadcast_fut_queue_with(cap, a, b),
                None => mq::broadcast_fut_queue(cap),
            };
            (TxInner::BF(spawn(t)), RxInner::BF(spawn(r)))
        }
        (Flavour::Mpmc, true) => {
            let (t, r) = mq::mpmc_fut_queue(cap);
            (TxInner::MF(spawn(t)), RxInner::MF(spawn(r)))
        }
    };
    (TxH::wrap(tx), RxH::wrap(rx, new_stream_id()))
}

/// create a plain queue with a caller supplied wait strategy (C08 SpyWait)
pub fn create_with_wait<W: Wait + 'static>(fl: Flavour, cap: u64, w: W) -> (TxH, RxH) {
    let (tx, rx) = match fl {
        Flavour::Broadcast => {
            let (t, r) = mq::broadcast_queue_with(cap, w);
            (TxInner::B(t), RxInner::B(r))
        }
        Flavour::Mpmc => {
            let (t, r) = mq::mpmc_queue_with(cap, w);
            (TxInner::M(t), RxInner::M(r))
        }
    };
    (TxH::wrap(tx), RxH::wrap(rx, new_stream_id()))
}

#[derive(Clone, Copy, Debug, PartialEq)]
pub enum SendOut {
    Ok,
    Full,
    Disc,
    NotReady,
    Panic,
}

fn classify_panic(e: Box<dyn std::any::Any + Send>, what: &str, fut: bool) -> String {
    if let Some(sb) = e.downcast_ref::<hooks::StepBound>() {
        let msg = format!(
            "{}: exceeded the own-step bound ({} hook sites passed, last {}) without returning; histogram: {}",
            what,
            sb.steps,
            hooks::site_name(sb.site),
            hooks::op_hist_text()
        );
        payload::violation(
            if fut { "C15" } else { "C18" },
            "step-bound",
            format!("step-bound:{}", what),
            msg.clone(),
        );
        return msg;
    }
    let msg = if let Some(s) = e.downcast_ref::<&str>() {
        s.to_string()
    } else if let Some(s) = e.downcast_ref::<String>() {
        s.clone()
    } else {
        "non-string panic".to_string()
    };
    payload::violation(
        if fut { "C15" } else { "C09" },
        "panic",
        format!("panic:{}:{}", what, &msg[..msg.len().min(60)]),
        format!("{} panicked: {}", what, msg),
    );
    msg
}

fn limit() -> u64 {
    STEP_LIMIT.load(Relaxed)
}

impl TxH {
    fn wrap(inner: TxInner) -> TxH {
        let (note, nh) = new_note();
        TxH {
            h: new_handle_id(),
            inner: Some(inner),
            note,
            nh,
        }
    }
    pub fn is_fut(&self) -> bool {
        matches!(self.inner, Some(TxInner::BF(_)) | Some(TxInner::MF(_)))
    }

    /// try_send (direct method on all four sender types)
    pub fn try_send(&self, id: u64) -> SendOut {
        let v = Tracked::new(id);
        let serial = v.serial();
        let tok = hist::call(self.h, 0, Op::Send, id);
        hooks::op_begin(limit());
        vh::take_sent();
        let r = catch_unwind(AssertUnwindSafe(|| match self.inner.as_ref().unwrap() {
            TxInner::B(t) => t.try_send(v),
            TxInner::M(t) => t.try_send(v),
            TxInner::BF(t) => t.get_ref().try_send(v),
            TxInner::MF(t) => t.get_ref().try_send(v),
        }));
        hooks::op_end();
        match r {
            Ok(Ok(())) => {
                let pos = vh::take_sent();
                hist::ret(tok, Res::Ok, if pos == vh::NO_POS { NO_POS } else { pos as u64 });
                SendOut::Ok
            }
            Ok(Err(TrySendError::Full(back))) => {
                let echo = back.serial() == serial && back.id() == id;
                hist::ret_echo(tok, Res::Full, NO_POS, echo);
                drop(back);
                SendOut::Full
            }
            Ok(Err(TrySendError::Disconnected(back))) => {
                let echo = back.serial() == serial && back.id() == id;
                hist::ret_echo(tok, Res::Disc, NO_POS, echo);
                drop(back);
                SendOut::Disc
            }
            Err(e) => {
                classify_panic(e, "try_send", self.is_fut());
                hist::ret(tok, Res::Panic, NO_POS);
                SendOut::Panic
            }
        }
    }

    /// Sink::start_send driven by the harness executor
    pub fn start_send(&mut self, id: u64) -> SendOut {
        let v = Tracked::new(id);
        let serial = v.serial();
        let tok = hist::call(self.h, 0, Op::SinkSend, id);
        hooks::op_begin(limit());
        vh::take_sent();
        let nh = self.nh.clone();
        let r = catch_unwind(AssertUnwindSafe(|| match self.inner.as_mut().unwrap() {
            TxInner::BF(t) => t.start_send_notify(v, &nh, 0),
            TxInner::MF(t) => t.start_send_notify(v, &nh, 0),
            _ => panic!("harness: start_send on plain sender"),
        }));
        hooks::op_end();
        match r {
            Ok(Ok(AsyncSink::Ready)) => {
                let pos = vh::take_sent();
                hist::ret(tok, Res::Ok, if pos == vh::NO_POS { NO_POS } else { pos as u64 });
                SendOut::Ok
            }
            Ok(Ok(AsyncSink::NotReady(back))) => {
                let echo = back.serial() == serial && back.id() == id;
                hist::ret_echo(tok, Res::NotReady, NO_POS, echo);
                drop(back);
                SendOut::NotReady
            }
            Ok(Err(std::sync::mpsc::SendError(back))) => {
                let echo = back.serial() == serial && back.id() == id;
                hist::ret_echo(tok, Res::Disc, NO_POS, echo);
                drop(back);
                SendOut::Disc
            }
            Err(e) => {
                classify_panic(e, "start_send", true);
                hist::ret(tok, Res::Panic, NO_POS);
                SendOut::Panic
            }
        }
    }

    pub fn clone_tx(&self) -> TxH {
        let tok = hist::call(self.h, 0, Op::CloneTx, 0);
        let inner = match self.inner.as_ref().unwrap() {
            TxInner::B(t) => TxInner::B(t.clone()),
            TxInner::M(t) => TxInner::M(t.clone()),
            TxInner::BF(t) => TxInner::BF(spawn(t.get_ref().clone())),
            TxInner::MF(t) => TxInner::MF(spawn(t.get_ref().clone())),
        };
        let n = TxH::wrap(inner);
        hist::ret(
            tok,
            Res::New {
                handle: n.h,
                stream: 0,
            },
            NO_POS,
        );
        n
    }

    /// drop (or unsubscribe, which is the same for senders)
    pub fn drop_tx(mut self, via_unsubscribe: bool) {
        let tok = hist::call(self.h, 0, Op::DropTx, via_unsubscribe as u64);
        let inner = self.inner.take().unwrap();
        let r = catch_unwind(AssertUnwindSafe(move || {
            if via_unsubscribe {
                match inner {
                    TxInner::B(t) => t.unsubscribe(),
                    TxInner::M(t) => t.unsubscribe(),
                    TxInner::BF(t) => t.into_inner().unsubscribe(),
                    TxInner::MF(t) => t.into_inner().unsubscribe(),
                }
            } else {
                drop(inner)
            }
        }));
        if let Err(e) = r {
            classify_panic(e, "drop_tx", false);
            hist::ret(tok, Res::Panic, NO_POS);
        } else {
            hist::ret(tok, Res::Ok, NO_POS);
        }
    }
}

impl Drop for TxH {
    fn drop(&mut self) {
        if let Some(inner) = self.inner.take() {
            // implicit drop (not via drop_tx): still log it
            let tok = hist::call(self.h, 0, Op::DropTx, 2);
            drop(inner);
            hist::ret(tok, Res::Ok, NO_POS);
        }
    }
}

#[derive(Clone, Copy, Debug, PartialEq)]
pub enum RecvOut {
    Val(Seen),
    Empty,
    /// Disconnected / Err(RecvError) / Ready(None) / blocking iterator end
    End,
    IterNone,
    NotReady,
    Panic,
    Unsupported,
}

impl RecvOut {
    pub fn res(&self) -> Res {
        match self {
            RecvOut::Val(s) => Res::Val(s.id),
            RecvOut::Empty => Res::Empty,
            RecvOut::End => Res::End,
            RecvOut::IterNone => Res::IterNone,
            RecvOut::NotReady => Res::NotReady,
            RecvOut::Panic => Res::Panic,
            RecvOut::Unsupported => Res::Panic,
        }
    }
}

fn tr<T, F: FnOnce(T) -> Seen>(r: Result<T, TryRecvError>, f: F) -> RecvOut {
    match r {
        Ok(v) => RecvOut::Val(f(v)),
        Err(TryRecvError::Empty) => RecvOut::Empty,
        Err(TryRecvError::Disconnected) => RecvOut::End,
    }
}

impl RxH {
    fn wrap(inner: RxInner, stream: u32) -> RxH {
        let (note, nh) = new_note();
        RxH {
            h: new_handle_id(),
            stream,
            inner: Some(inner),
            note,
            nh,
        }
    }

    pub fn kind_name(&self) -> &'static str {
        match self.inner.as_ref() {
            Some(RxInner::B(_)) => "BroadcastReceiver",
            Some(RxInner::BU(_)) => "BroadcastUniReceiver",
            Some(RxInner::M(_)) => "MPMCReceiver",
            Some(RxInner::MU(_)) => "MPMCUniReceiver",
            Some(RxInner::BF(_)) => "BroadcastFutReceiver",
            Some(RxInner::BFU(_)) => "BroadcastFutUniReceiver",
            Some(RxInner::MF(_)) => "MPMCFutReceiver",
            Some(RxInner::MFU(_)) => "MPMCFutUniReceiver",
            Some(RxInner::Iter(_)) => "BlockingIter",
            None => "gone",
        }
    }
    pub fn is_fut(&self) -> bool {
        matches!(
            self.inner,
            Some(RxInner::BF(_)) | Some(RxInner::BFU(_)) | Some(RxInner::MF(_)) | Some(RxInner::MFU(_))
        )
    }
    pub fn is_uni(&self) -> bool {
        matches!(
            self.inner,
            Some(RxInner::BU(_)) | Some(RxInner::MU(_)) | Some(RxInner::BFU(_)) | Some(RxInner::MFU(_))
        )
    }
    pub fn is_iter(&self) -> bool {
        matches!(self.inner, Some(RxInner::Iter(_)))
    }
    pub fn can_clone(&self) -> bool {
        matches!(
            self.inner,
            Some(RxInner::B(_)) | Some(RxInner::M(_)) | Some(RxInner::BF(_)) | Some(RxInner::MF(_))
        )
    }
    pub fn can_add_stream(&self) -> bool {
        matches!(
            self.inner,
            Some(RxInner::B(_)) | Some(RxInner::BF(_)) | Some(RxInner::BFU(_))
        )
    }

    pub fn supports(&self, k: RecvKind) -> bool {
        match self.inner.as_ref().unwrap() {
            RxInner::B(_) | RxInner::M(_) => {
                matches!(k, RecvKind::TryRecv | RecvKind::Recv | RecvKind::TryIter)
            }
            RxInner::BU(_) | RxInner::MU(_) => matches!(
                k,
                RecvKind::TryRecv
                    | RecvKind::Recv
                    | RecvKind::TryView
                    | RecvKind::RecvView
                    | RecvKind::TryIter
                    | RecvKind::TryIterWith
            ),
            RxInner::BF(_) | RxInner::MF(_) => {
                matches!(k, RecvKind::TryRecv | RecvKind::Recv | RecvKind::Poll)
            }
            RxInner::BFU(_) | RxInner::MFU(_) => {
                matches!(k, RecvKind::TryRecv | RecvKind::Recv | RecvKind::Poll)
            }
            RxInner::Iter(_) => matches!(k, RecvKind::IterNext),
        }
    }

    pub fn supported_kinds(&self, allow_blocking: bool) -> Vec<RecvKind> {
        let all = [
            RecvKind::TryRecv,
            RecvKind::Recv,
            RecvKind::TryView,
            RecvKind::RecvView,
            RecvKind::TryIter,
            RecvKind::TryIterWith,
            RecvKind::Poll,
            RecvKind::IterNext,
        ];
        all.iter()
            .copied()
            .filter(|k| self.supports(*k) && (allow_blocking || !k.blocking()))
            .collect()
    }

    /// one receive through the chosen entry point
    pub fn recv_kind(&mut self, k: RecvKind) -> RecvOut {
        if !self.supports(k) {
            return RecvOut::Unsupported;
        }
        let tok = hist::call(self.h, self.stream, k.op(), 0);
        // blocking entry points may legitimately spin; only non-blocking calls are bounded
        hooks::op_begin(if k.blocking() { 0 } else { limit() });
        vh::take_recv_attempt();
        let nh = self.nh.clone();
        let fut = self.is_fut();
        let inner = self.inner.as_mut().unwrap();
        let r = catch_unwind(AssertUnwindSafe(|| -> RecvOut {
            let c = |v: P| consume(v, "delivered");
            match (inner, k) {
                (RxInner::B(r), RecvKind::TryRecv) => tr(r.try_recv(), c),
                (RxInner::BU(r), RecvKind::TryRecv) => tr(r.try_recv(), c),
                (RxInner::M(r), RecvKind::TryRecv) => tr(r.try_recv(), c),
                (RxInner::MU(r), RecvKind::TryRecv) => tr(r.try_recv(), c),
                (RxInner::BF(r), RecvKind::TryRecv) => tr(r.get_ref().try_recv(), c),
                (RxInner::MF(r), RecvKind::TryRecv) => tr(r.get_ref().try_recv(), c),
                (RxInner::BFU(r), RecvKind::TryRecv) => tr(r.get_mut().try_recv(), |s| s),
                (RxInner::MFU(r), RecvKind::TryRecv) => tr(r.get_mut().try_recv(), |s| s),

                (RxInner::B(r), RecvKind::Recv) => r.recv().map(|v| RecvOut::Val(c(v))).unwrap_or(RecvOut::End),
                (RxInner::BU(r), RecvKind::Recv) => r.recv().map(|v| RecvOut::Val(c(v))).unwrap_or(RecvOut::End),
                (RxInner::M(r), RecvKind::Recv) => r.recv().map(|v| RecvOut::Val(c(v))).unwrap_or(RecvOut::End),
                (RxInner::MU(r), RecvKind::Recv) => r.recv().map(|v| RecvOut::Val(c(v))).unwrap_or(RecvOut::End),
                (RxInner::BF(r), RecvKind::Recv) => r.get_ref().recv().map(|v| RecvOut::Val(c(v))).unwrap_or(RecvOut::End),
                (RxInner::MF(r), RecvKind::Recv) => r.get_ref().recv().map(|v| RecvOut::Val(c(v))).unwrap_or(RecvOut::End),
                (RxInner::BFU(r), RecvKind::Recv) => r.get_mut().recv().map(RecvOut::Val).unwrap_or(RecvOut::End),
                (RxInner::MFU(r), RecvKind::Recv) => r.get_mut().recv().map(RecvOut::Val).unwrap_or(RecvOut::End),

                (RxInner::BU(r), RecvKind::TryView) => match r.try_recv_view(view_op) {
                    Ok(s) => RecvOut::Val(s),
                    Err((_, TryRecvError::Empty)) => RecvOut::Empty,
                    Err((_, TryRecvError::Disconnected)) => RecvOut::End,
                },
                (RxInner::MU(r), RecvKind::TryView) => match r.try_recv_view(view_op) {
                    Ok(s) => RecvOut::Val(s),
                    Err((_, TryRecvError::Empty)) => RecvOut::Empty,
                    Err((_, TryRecvError::Disconnected)) => RecvOut::End,
                },
                (RxInner::BU(r), RecvKind::RecvView) => match r.recv_view(view_op) {
                    Ok(s) => RecvOut::Val(s),
                    Err(_) => RecvOut::End,
                },
                (RxInner::MU(r), RecvKind::RecvView) => match r.recv_view(view_op) {
                    Ok(s) => RecvOut::Val(s),
                    Err(_) => RecvOut::End,
                },

                (RxInner::B(r), RecvKind::TryIter) => r.try_iter().next().map(|v| RecvOut::Val(c(v))).unwrap_or(RecvOut::IterNone),
                (RxInner::M(r), RecvKind::TryIter) => r.try_iter().next().map(|v| RecvOut::Val(c(v))).unwrap_or(RecvOut::IterNone),
                (RxInner::BU(r), RecvKind::TryIter) => (&*r).into_iter().next().map(|v| RecvOut::Val(c(v))).unwrap_or(RecvOut::IterNone),
                (RxInner::MU(r), RecvKind::TryIter) => (&*r).into_iter().next().map(|v| RecvOut::Val(c(v))).unwrap_or(RecvOut::IterNone),
                (RxInner::BU(r), RecvKind::TryIterWith) => r.try_iter_with(view_op).next().map(RecvOut::Val).unwrap_or(RecvOut::IterNone),
                (RxInner::MU(r), RecvKind::TryIterWith) => r.try_iter_with(view_op).next().map(RecvOut::Val).unwrap_or(RecvOut::IterNone),

                (RxInner::BF(r), RecvKind::Poll) => match r.poll_stream_notify(&nh, 0) {
                    Ok(Async::Ready(Some(v))) => RecvOut::Val(c(v)),
                    Ok(Async::Ready(None)) => RecvOut::End,
                    Ok(Async::NotReady) => RecvOut::NotReady,
                    Err(()) => RecvOut::Panic,
                },
                (RxInner::MF(r), RecvKind::Poll) => match r.poll_stream_notify(&nh, 0) {
                    Ok(Async::Ready(Some(v))) => RecvOut::Val(c(v)),
                    Ok(Async::Ready(None)) => RecvOut::End,
                    Ok(Async::NotReady) => RecvOut::NotReady,
                    Err(()) => RecvOut::Panic,
                },
                (RxInner::BFU(r), RecvKind::Poll) => match r.poll_stream_notify(&nh, 0) {
                    Ok(Async::Ready(Some(s))) => RecvOut::Val(s),
                    Ok(Async::Ready(None)) => RecvOut::End,
                    Ok(Async::NotReady) => RecvOut::NotReady,
                    Err(()) => RecvOut::Panic,
                },
                (RxInner::MFU(r), RecvKind::Poll) => match r.poll_stream_notify(&nh, 0) {
                    Ok(Async::Ready(Some(s))) => RecvOut::Val(s),
                    Ok(Async::Ready(None)) => RecvOut::End,
                    Ok(Async::NotReady) => RecvOut::NotReady,
                    Err(()) => RecvOut::Panic,
                },
                (RxInner::Iter(it), RecvKind::IterNext) => it.next().map(RecvOut::Val).unwrap_or(RecvOut::End),
                _ => RecvOut::Unsupported,
            }
        }));
        hooks::op_end();
        match r {
            Ok(out) => {
                let pos = if let RecvOut::Val(_) = out {
                    let p = vh::take_recv_attempt();
                    if p == vh::NO_POS {
                        NO_POS
                    } else {
                        p as u64
                    }
                } else {
                    NO_POS
                };
                hist::ret(tok, out.res(), pos);
                out
            }
            Err(e) => {
                classify_panic(e, k.op().name(), fut);
                hist::ret(tok, Res::Panic, NO_POS);
                RecvOut::Panic
            }
        }
    }

    pub fn clone_rx(&self) -> Option<RxH> {
        if !self.can_clone() {
            return None;
        }
        let tok = hist::call(self.h, self.stream, Op::CloneRx, 0);
        let inner = match self.inner.as_ref().unwrap() {
            RxInner::B(r) => RxInner::B(r.clone()),
            RxInner::M(r) => RxInner::M(r.clone()),
            RxInner::BF(r) => RxInner::BF(spawn(r.get_ref().clone())),
            RxInner::MF(r) => RxInner::MF(spawn(r.get_ref().clone())),
            _ => unreachable!(),
        };
        let n = RxH::wrap(inner, self.stream);
        hist::ret(
            tok,
            Res::New {
                handle: n.h,
                stream: n.stream,
            },
            NO_POS,
        );
        Some(n)
    }

    /// add_stream / add_stream_with: a new stream starting at this handle's stream position.
    /// `allow_mpmc_uni` permits MPMCFutUniReceiver::add_stream_with (open finding P6).
    pub fn add_stream(&self, allow_mpmc_uni: bool) -> Option<RxH> {
        let ok = self.can_add_stream() || (allow_mpmc_uni && matches!(self.inner, Some(RxInner::MFU(_))));
        if !ok {
            return None;
        }
        let tok = hist::call(self.h, self.stream, Op::AddStream, 0);
        let inner = match self.inner.as_ref().unwrap() {
            RxInner::B(r) => RxInner::B(r.add_stream()),
            RxInner::BF(r) => RxInner::BF(spawn(r.get_ref().add_stream())),
            RxInner::BFU(r) => RxInner::BFU(spawn(r.get_ref().add_stream_with(view_op as ViewFn))),
            RxInner::MFU(r) => RxInner::MFU(spawn(r.get_ref().add_stream_with(view_op as ViewFn))),
            _ => unreachable!(),
        };
        let n = RxH::wrap(inner, new_stream_id());
        hist::ret(
            tok,
            Res::New {
                handle: n.h,
                stream: n.stream,
            },
            NO_POS,
        );
        Some(n)
    }

    /// into_single: returns true if the handle is now a single-consumer receiver
    pub fn into_single(&mut self) -> Option<bool> {
        let can = matches!(
            self.inner,
            Some(RxInner::B(_)) | Some(RxInner::M(_)) | Some(RxInner::BF(_)) | Some(RxInner::MF(_))
        );
        if !can {
            return None;
        }
        let tok = hist::call(self.h, self.stream, Op::IntoSingle, 0);
        let inner = self.inner.take().unwrap();
        let (ni, ok) = match inner {
            RxInner::B(r) => match r.into_single() {
                Ok(u) => (RxInner::BU(u), true),
                Err(r) => (RxInner::B(r), false),
            },
            RxInner::M(r) => match r.into_single() {
                Ok(u) => (RxInner::MU(u), true),
                Err(r) => (RxInner::M(r), false),
            },
            RxInner::BF(r) => match r.into_inner().into_single(view_op as ViewFn) {
                Ok(u) => (RxInner::BFU(spawn(u)), true),
                Err((_, r)) => (RxInner::BF(spawn(r)), false),
            },
            RxInner::MF(r) => match r.into_inner().into_single(view_op as ViewFn) {
                Ok(u) => (RxInner::MFU(spawn(u)), true),
                Err((_, r)) => (RxInner::MF(spawn(r)), false),
            },
            _ => unreachable!(),
        };
        self.inner = Some(ni);
        hist::ret(tok, if ok { Res::Ok } else { Res::Refused }, NO_POS);
        Some(ok)
    }

    pub fn into_multi(&mut self) -> bool {
        if !self.is_uni() {
            return false;
        }
        let tok = hist::call(self.h, self.stream, Op::IntoMulti, 0);
        let inner = self.inner.take().unwrap();
        let ni = match inner {
            RxInner::BU(r) => RxInner::B(r.into_multi()),
            RxInner::MU(r) => RxInner::M(r.into_multi()),
            RxInner::BFU(r) => RxInner::BF(spawn(r.into_inner().into_multi())),
            RxInner::MFU(r) => RxInner::MF(spawn(r.into_inner().into_multi())),
            _ => unreachable!(),
        };
        self.inner = Some(ni);
        hist::ret(tok, Res::Ok, NO_POS);
        true
    }

    /// transform_operation on the futures single-consumer receivers
    pub fn transform(&mut self) -> bool {
        if !matches!(self.inner, Some(RxInner::BFU(_)) | Some(RxInner::MFU(_))) {
            return false;
        }
        let tok = hist::call(self.h, self.stream, Op::Transform, 0);
        let inner = self.inner.take().unwrap();
        let ni = match inner {
            RxInner::BFU(r) => RxInner::BFU(spawn(r.into_inner().transform_operation(view_op as ViewFn))),
            RxInner::MFU(r) => RxInner::MFU(spawn(r.into_inner().transform_operation(view_op as ViewFn))),
            _ => unreachable!(),
        };
        self.inner = Some(ni);
        hist::ret(tok, Res::Ok, NO_POS);
        true
    }

    /// turn into a consuming blocking iterator (into_iter, or iter_with on single receivers)
    pub fn into_blocking_iter(&mut self, with: bool) -> bool {
        let can = match self.inner.as_ref().unwrap() {
            RxInner::B(_) | RxInner::M(_) => !with,
            RxInner::BU(_) | RxInner::MU(_) => true,
            _ => false,
        };
        if !can {
            return false;
        }
        let tok = hist::call(self.h, self.stream, Op::IntoIter, with as u64);
        let inner = self.inner.take().unwrap();
        let c = |v: P| consume(v, "delivered-iter");
        let it: Box<dyn Iterator<Item = Seen> + Send> = match inner {
            RxInner::B(r) => Box::new(r.into_iter().map(c)),
            RxInner::M(r) => Box::new(r.into_iter().map(c)),
            RxInner::BU(r) => {
                if with {
                    Box::new(r.iter_with(view_op as ViewFn))
                } else {
                    Box::new(r.into_iter().map(c))
                }
            }
            RxInner::MU(r) => {
                if with {
                    Box::new(r.iter_with(view_op as ViewFn))
                } else {
                    Box::new(r.into_iter().map(c))
                }
            }
            _ => unreachable!(),
        };
        self.inner = Some(RxInner::Iter(it));
        hist::ret(tok, Res::Ok, NO_POS);
        true
    }

    /// unsubscribe(): Some(bool) for the types that report "was last", None otherwise
    pub fn unsubscribe(mut self) -> Option<bool> {
        if self.is_iter() {
            self.drop_rx();
            return None;
        }
        let tok = hist::call(self.h, self.stream, Op::Unsub, 0);
        let inner = self.inner.take().unwrap();
        let r = catch_unwind(AssertUnwindSafe(move || match inner {
            RxInner::B(r) => Some(r.unsubscribe()),
            RxInner::BU(r) => {
                r.unsubscribe();
                None
            }
            RxInner::M(r) => Some(r.unsubscribe()),
            RxInner::MU(r) => Some(r.unsubscribe()),
            RxInner::BF(r) => Some(r.into_inner().unsubscribe()),
            RxInner::BFU(r) => Some(r.into_inner().unsubscribe()),
            RxInner::MF(r) => Some(r.into_inner().unsubscribe()),
            RxInner::MFU(r) => Some(r.into_inner().unsubscribe()),
            RxInner::Iter(_) => None,
        }));
        match r {
            Ok(b) => {
                hist::ret(
                    tok,
                    match b {
                        Some(x) => Res::Bool(x),
                        None => Res::Ok,
                    },
                    NO_POS,
                );
                b
            }
            Err(e) => {
                classify_panic(e, "unsubscribe", false);
                hist::ret(tok, Res::Panic, NO_POS);
                None
            }
        }
    }

    pub fn drop_rx(mut self) {
        let tok = hist::call(self.h, self.stream, Op::DropRx, 0);
        let inner = self.inner.take().unwrap();
        let r = catch_unwind(AssertUnwindSafe(move || drop(inner)));
        if let Err(e) = r {
            classify_panic(e, "drop_rx", false);
            hist::ret(tok, Res::Panic, NO_POS);
        } else {
            hist::ret(tok, Res::Ok, NO_POS);
        }
    }
}

impl Drop for RxH {
    fn drop(&mut self) {
        if let Some(inner) = self.inner.take() {
            let tok = hist::call(self.h, self.stream, Op::DropRx, 2);
            drop(inner);
            hist::ret(tok, Res::Ok, NO_POS);
        }
    }
}

// Handles are moved between harness threads. RxH / TxH are Send only because every one of
// the twelve public handle types is Send for this (Send + Sync) payload: that is the
// positive half of C19, checked by the compiler each time the harness is built.
#[allow(dead_code)]
fn _assert_handles_are_send() {
    fn is_send<T: Send>() {}
    is_send::<RxH>();
    is_send::<TxH>();
}
