//! Minimal JSON value + writer (no external crates).
use std::fmt::Write;

#[derive(Clone, Debug)]
pub enum J {
    Null,
    Bool(bool),
    Int(i64),
    UInt(u64),
    Float(f64),
    Str(String),
    Arr(Vec<J>),
    Obj(Vec<(String, J)>),
}

impl J {
    pub fn obj() -> J {
        J::Obj(Vec::new())
    }
    pub fn s<S: Into<String>>(s: S) -> J {
        J::Str(s.into())
    }
    pub fn set<S: Into<String>>(mut self, k: S, v: J) -> J {
        if let J::Obj(ref mut m) = self {
            let k = k.into();
            if let Some(e) = m.iter_mut().find(|e| e.0 == k) {
                e.1 = v;
            } else {
                m.push((k, v));
            }
        }
        self
    }
    pub fn put<S: Into<String>>(&mut self, k: S, v: J) {
        if let J::Obj(ref mut m) = self {
            let k = k.into();
            if let Some(e) = m.iter_mut().find(|e| e.0 == k) {
                e.1 = v;
            } else {
                m.push((k, v));
            }
        }
    }
    pub fn push(&mut self, v: J) {
        if let J::Arr(ref mut a) = self {
            a.push(v);
        }
    }
    pub fn to_string(&self) -> String {
        let mut s = String::new();
        self.write(&mut s);
        s
    }
    fn write(&self, o: &mut String) {
        match self {
            J::Null => o.push_str("null"),
            J::Bool(b) => o.push_str(if *b { "true" } else { "false" }),
            J::Int(i) => {
                let _ = write!(o, "{}", i);
            }
            J::UInt(i) => {
                let _ = write!(o, "{}", i);
            }
            J::Float(f) => {
                if f.is_finite() {
                    let _ = write!(o, "{:.4}", f);
                } else {
                    o.push_str("null");
                }
            }
            J::Str(s) => {
                o.push('"');
                for c in s.chars() {
                    match c {
                        '"' => o.push_str("\\\""),
                        '\\' => o.push_str("\\\\"),
                        '\n' => o.push_str("\\n"),
                        '\r' => o.push_str("\\r"),
                        '\t' => o.push_str("\\t"),
                        c if (c as u32) < 0x20 => {
                            let _ = write!(o, "\\u{:04x}", c as u32);
                        }
                        c => o.push(c),
                    }
                }
                o.push('"');
            }
            J::Arr(a) => {
                o.push('[');
                for (i, v) in a.iter().enumerate() {
                    if i > 0 {
                        o.push(',');
                    }
                    v.write(o);
                }
                o.push(']');
            }
            J::Obj(m) => {
                o.push('{');
                for (i, (k, v)) in m.iter().enumerate() {
                    if i > 0 {
                        o.push(',');
                    }
                    J::Str(k.clone()).write(o);
                    o.push(':');
                    v.write(o);
                }
                o.push('}');
            }
        }
    }
}

impl From<u64> for J {
    fn from(v: u64) -> J {
        J::UInt(v)
    }
}
impl From<usize> for J {
    fn from(v: usize) -> J {
        J::UInt(v as u64)
    }
}
impl From<u32> for J {
    fn from(v: u32) -> J {
        J::UInt(v as u64)
    }
}
impl From<i64> for J {
    fn from(v: i64) -> J {
        J::Int(v)
    }
}
impl From<bool> for J {
    fn from(v: bool) -> J {
        J::Bool(v)
    }
}
impl From<&str> for J {
    fn from(v: &str) -> J {
        J::Str(v.to_string())
    }
}
impl From<String> for J {
    fn from(v: String) -> J {
        J::Str(v)
    }
}
impl From<f64> for J {
    fn from(v: f64) -> J {
        J::Float(v)
    }
}
impl<T: Into<J>> From<Vec<T>> for J {
    fn from(v: Vec<T>) -> J {
        J::Arr(v.into_iter().map(|x| x.into()).collect())
    }
}
