//! mq-tight: free-running contention stress with minimal harness overhead (no history, no
//! per-call bookkeeping): several consumers hammer one shared stream of a tiny queue while
//! producers refill it. The oracles are the payload's own self-check during clone / on
//! delivery (C04) and the per-instance ledger (C05). This is the complement of mq-conc: windows
//! of a few instructions that contain no hook site are only reachable when the threads spend
//! nearly all their time inside the queue and contend on its cache lines.
use std::sync::atomic::Ordering::SeqCst;
use std::sync::atomic::{AtomicBool, AtomicU64};
use std::sync::Arc;
use std::time::{Duration, Instant};

use multiqueue2 as mq;

use crate::api::Flavour;
use crate::hist;
use crate::hooks::{self, site, Policy};
use crate::out::J;
use crate::payload::{self, consume, view_op, violation, Tracked};
use crate::report::Shard;
use crate::rng::{Hasher64, Rng};

#[derive(Clone, Debug)]
pub struct TightCfg {
    pub fl: Flavour,
    pub cap: u64,
    pub producers: u32,
    pub shared_consumers: u32,
    pub extra_uni_stream: bool,
    pub millis: u64,
    pub seed: u64,
}

impl TightCfg {
    pub fn describe(&self) -> String {
        format!(
            "tight {} cap={} producers={} consumers-on-one-stream={} extra-view-stream={} {}ms",
            self.fl.name(),
            self.cap,
            self.producers,
            self.shared_consumers,
            self.extra_uni_stream,
            self.millis
        )
    }
}

pub fn gen_cfg(rng: &mut Rng, small: bool) -> TightCfg {
    let fl = if rng.chance(3, 4) { Flavour::Broadcast } else { Flavour::Mpmc };
    TightCfg {
        fl,
        cap: *rng.pick(&[0u64, 1, 1, 2, 2, 4]),
        producers: 1 + rng.below(2) as u32,
        shared_consumers: 2 + rng.below(3) as u32,
        extra_uni_stream: fl == Flavour::Broadcast && rng.chance(1, 3),
        millis: if small { 5 } else { 300 + rng.below(700) },
        seed: rng.next(),
    }
}

struct Sh {
    go: AtomicBool,
    stop: AtomicBool,
    sent: AtomicU64,
    received: AtomicU64,
}

pub fn run_once(cfg: &TightCfg, shard: &mut Shard) -> (u64, bool) {
    payload::reset_ledger();
    payload::set_pod_mode(cfg!(miri) && cfg.fl == Flavour::Mpmc);
    hist::set_enabled(false);
    hooks::thread_begin(0, crate::conc::ROLE_MAIN, cfg.seed, Policy::None, &[]);
    let lost_before = hooks::SITE_HITS[site::R_CAS_LOST as usize].load(SeqCst) + hooks::SITE_HITS[site::R_PIN_LOST as usize].load(SeqCst);
    let sh = Arc::new(Sh {
        go: AtomicBool::new(false),
        stop: AtomicBool::new(false),
        sent: AtomicU64::new(0),
        received: AtomicU64::new(0),
    });
    let mut joins = Vec::new();
    let mut rng = Rng::new(cfg.seed);
    let mut tid = 1u32;
    macro_rules! spawn_all {
        ($tx:expr, $rx:expr, $uni:expr) => {{
            let tx = $tx;
            let rx = $rx;
            for p in 0..cfg.producers {
                let t = tx.clone();
                let sh = sh.clone();
                let my = tid;
                let seed = rng.next();
                joins.push(std::thread::spawn(move || {
                    hooks::thread_begin(my, crate::conc::ROLE_PRODUCER, seed, Policy::None, &[]);
                    hist::set_enabled(false);
                    while !sh.go.load(SeqCst) {
                        std::thread::yield_now();
                    }
                    let mut id = ((p as u64 + 1) << 40) | 1;
                    let mut n = 0u64;
                    while !sh.stop.load(SeqCst) {
                        match t.try_send(Tracked::new(id)) {
                            Ok(()) => {
                                id += 1;
                                n += 1;
                            }
                            Err(e) => {
                                // the refused value comes back and is dropped here
                                drop(e);
                                std::hint::spin_loop();
                            }
                        }
                    }
                    sh.sent.fetch_add(n, SeqCst);
                    drop(t);
                    hooks::thread_end();
                }));
                tid += 1;
            }
            for _ in 0..cfg.shared_consumers {
                let r = rx.clone();
                let sh = sh.clone();
                let my = tid;
                let seed = rng.next();
                joins.push(std::thread::spawn(move || {
                    hooks::thread_begin(my, crate::conc::ROLE_CONSUMER, seed, Policy::None, &[]);
                    hist::set_enabled(false);
                    while !sh.go.load(SeqCst) {
                        std::thread::yield_now();
                    }
                    let mut n = 0u64;
                    while !sh.stop.load(SeqCst) {
                        if let Ok(v) = r.try_recv() {
                            consume(v, "delivered");
                            n += 1;
                        }
                    }
                    sh.received.fetch_add(n, SeqCst);
                    drop(r);
                    hooks::thread_end();
                }));
                tid += 1;
            }
            if let Some(u) = $uni {
                let sh = sh.clone();
                let my = tid;
                let seed = rng.next();
                joins.push(std::thread::spawn(move || {
                    hooks::thread_begin(my, crate::conc::ROLE_CONSUMER, seed, Policy::None, &[]);
                    hist::set_enabled(false);
                    while !sh.go.load(SeqCst) {
                        std::thread::yield_now();
                    }
                    while !sh.stop.load(SeqCst) {
                        let _ = u.try_recv_view(view_op);
                    }
                    drop(u);
                    hooks::thread_end();
                }));
                tid += 1;
            }
            drop(tx);
            drop(rx);
        }};
    }
    match cfg.fl {
        Flavour::Broadcast => {
            let (tx, rx) = mq::broadcast_queue_with::<Tracked, _>(cfg.cap, mq::wait::BusyWait::new());
            let uni = if cfg.extra_uni_stream { rx.add_stream().into_single().ok() } else { None };
            spawn_all!(tx, rx, uni);
        }
        Flavour::Mpmc => {
            let (tx, rx) = mq::mpmc_queue_with::<Tracked, _>(cfg.cap, mq::wait::BusyWait::new());
            let none: Option<mq::MPMCUniReceiver<Tracked>> = None;
            spawn_all!(tx, rx, none);
        }
    }
    sh.go.store(true, SeqCst);
    let t0 = Instant::now();
    while t0.elapsed() < Duration::from_millis(cfg.millis) && payload::violations_pending() == 0 {
        if cfg!(miri) {
            std::thread::yield_now();
        } else {
            std::thread::sleep(Duration::from_millis(1));
        }
    }
    sh.stop.store(true, SeqCst);
    for j in joins {
        let _ = j.join();
    }
    hooks::thread_end();
    hist::set_enabled(true);
    let alive = payload::alive_serials();
    if !alive.is_empty() {
        violation(
            "C05",
            "never-dropped",
            "never-dropped:after-teardown".to_string(),
            format!("{} payload instance(s) alive after every handle was dropped ({})", alive.len(), cfg.describe()),
        );
    }
    let lost = hooks::SITE_HITS[site::R_CAS_LOST as usize].load(SeqCst) + hooks::SITE_HITS[site::R_PIN_LOST as usize].load(SeqCst) - lost_before;
    shard.stat("values_sent", sh.sent.load(SeqCst));
    shard.stat("values_received", sh.received.load(SeqCst));
    shard.stat("lost_position_races(R_CAS_LOST+R_PIN_LOST)", lost);
    shard.stat("clones", payload::CLONES.load(SeqCst));
    let vs = payload::take_violations();
    if !vs.is_empty() {
        let replay = J::obj().set("engine", J::s("tight")).set("cfg", J::s(cfg.describe())).set("run_seed", J::UInt(cfg.seed));
        shard.add_violations(vs, &replay);
    }
    let mut h = Hasher64::new();
    h.add_str(&cfg.describe());
    h.add((lost.min(1 << 20)) >> 6);
    (h.get(), lost > 0)
}

pub fn run_many(seed: u64, runs: u64, budget_ms: u64, small: bool, shard: &mut Shard) {
    let t0 = Instant::now();
    let mut rng = Rng::new(seed);
    let mut i = 0;
    while i < runs {
        if budget_ms != 0 && t0.elapsed().as_millis() as u64 > budget_ms {
            break;
        }
        let cfg = gen_cfg(&mut rng, small);
        let (sig, nontrivial) = run_once(&cfg, shard);
        shard.evaluations += 1;
        shard.distinct.insert(sig);
        if nontrivial {
            shard.nontrivial.insert(sig);
        }
        if shard.samples.len() < 2 {
            shard.samples.push(J::obj().set("cfg", J::s(cfg.describe())));
        }
        if shard.violations.len() >= 8 {
            break;
        }
        i += 1;
    }
}
