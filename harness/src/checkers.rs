//! Offline checkers over a recorded boundary history (C01, C02, C03, C07, C10, C11).
//! Every rule is a restatement of a property clause over *completed* calls with
//! unique ids; nothing is inferred about pairs that were not observed.
use std::collections::{BTreeMap, HashMap, HashSet};

use crate::hist::{Event, Op, Res, NO_POS};
use crate::payload::violation;

#[derive(Clone, Debug)]
pub struct SendRec {
    pub id: u64,
    pub pos: u64,
    pub t_call: u64,
    pub t_ret: u64,
    pub thread: u32,
    pub handle: u32,
}

#[derive(Clone, Debug)]
pub struct Deliv {
    pub id: u64,
    pub pos: u64,
    pub handle: u32,
    pub t_call: u64,
    pub t_ret: u64,
    pub op: Op,
}

#[derive(Clone, Debug, Default)]
pub struct StreamInfo {
    pub id: u32,
    pub parent: Option<u32>,
    /// add_stream call that created it (t_call, t_ret); (0,0) for the initial stream
    pub created: (u64, u64),
    pub deliveries: Vec<Deliv>,
    /// handle ids ever attached
    pub handles: Vec<u32>,
    /// t_call of the drop/unsubscribe that removed the last handle (None: alive at the end)
    pub removed_call: Option<u64>,
    pub removed_ret: Option<u64>,
    /// first end-of-stream result (t_call, t_ret)
    pub first_end: Option<(u64, u64)>,
    /// the quiescent probe drained it to Empty
    pub probe_drained: bool,
    /// handles were turned into a blocking iterator etc. and cannot be probed
    pub start_pos: Option<u64>,
    /// for streams made by add_stream: latest possible start (parent position when the call returned)
    pub start_hi: Option<u64>,
}

pub struct Index {
    pub n: u64,
    pub accepted: Vec<SendRec>,
    pub accepted_by_id: HashMap<u64, usize>,
    pub refused: HashSet<u64>,
    pub open_sends: HashSet<u64>,
    pub streams: BTreeMap<u32, StreamInfo>,
    pub handle_stream: HashMap<u32, u32>,
    /// (t_call, t_ret) of every sender-handle drop; number of sender handles ever created
    pub tx_created: u32,
    pub tx_drops: Vec<(u32, u64, u64)>,
    pub pos_ok: bool,
}

pub struct CheckCtx<'a> {
    pub h: &'a [Event],
    pub n: u64,
    pub first_stream: u32,
    pub first_tx: u32,
    /// t_call of the first event of the quiescent probe (u64::MAX if none)
    pub probe_from: u64,
    /// ids of streams the probe drained to Empty / End
    pub probe_drained: Vec<u32>,
    /// extra property tag added to C01/C03 violations (family attribution, e.g. ",C12")
    pub also: &'static str,
}

fn tag(base: &'static str, also: &'static str) -> &'static str {
    // small closed set so that we can return &'static str
    match (base, also) {
        (b, "") => b,
        ("C01", ",C12") => "C01,C12",
        ("C02", ",C12") => "C02,C12",
        ("C03", ",C12") => "C03,C12",
        ("C01", ",C10") => "C01,C10",
        ("C02", ",C10") => "C02,C10",
        ("C03", ",C10") => "C03,C10",
        ("C01", ",C11") => "C01,C11",
        ("C02", ",C11") => "C02,C11",
        ("C03", ",C11") => "C03,C11",
        ("C01", ",C15") => "C01,C15",
        ("C02", ",C15") => "C02,C15",
        ("C03", ",C15") => "C03,C15",
        ("C01", ",C07") => "C01,C07",
        (b, _) => b,
    }
}

pub fn build_index(c: &CheckCtx) -> Index {
    let mut ix = Index {
        n: c.n,
        accepted: Vec::new(),
        accepted_by_id: HashMap::new(),
        refused: HashSet::new(),
        open_sends: HashSet::new(),
        streams: BTreeMap::new(),
        handle_stream: HashMap::new(),
        tx_created: 1,
        tx_drops: Vec::new(),
        pos_ok: true,
    };
    ix.streams.insert(
        c.first_stream,
        StreamInfo {
            id: c.first_stream,
            parent: None,
            created: (0, 0),
            start_pos: Some(0),
            ..Default::default()
        },
    );
    // live handle count per stream, processed in call order (handle ops on one stream are
    // either sequential or, when concurrent, commutative for this bookkeeping)
    let mut live: HashMap<u32, i64> = HashMap::new();
    live.insert(c.first_stream, 1);
    for e in c.h {
        match e.op {
            Op::Send | Op::SinkSend => match e.res {
                Res::Ok => {
                    ix.accepted_by_id.insert(e.arg, ix.accepted.len());
                    ix.accepted.push(SendRec {
                        id: e.arg,
                        pos: e.pos,
                        t_call: e.t_call,
                        t_ret: e.t_ret,
                        thread: e.thread,
                        handle: e.handle,
                    });
                    if e.pos == NO_POS {
                        ix.pos_ok = false;
                    }
                }
                Res::Open | Res::Panic => {
                    ix.open_sends.insert(e.arg);
                }
                _ => {
                    ix.refused.insert(e.arg);
                }
            },
            Op::CloneTx => {
                ix.tx_created += 1;
            }
            Op::DropTx => {
                ix.tx_drops.push((e.handle, e.t_call, e.t_ret));
            }
            Op::AddStream | Op::CloneRx => {
                if let Res::New { handle, stream } = e.res {
                    ix.handle_stream.insert(handle, stream);
                    if e.op == Op::AddStream {
                        ix.streams.insert(
                            stream,
                            StreamInfo {
                                id: stream,
                                parent: Some(e.stream),
                                created: (e.t_call, e.t_ret),
                                ..Default::default()
                            },
                        );
                    }
                    *live.entry(stream).or_insert(0) += 1;
                    if let Some(s) = ix.streams.get_mut(&stream) {
                        s.handles.push(handle);
                    }
                }
            }
            Op::DropRx | Op::Unsub => {
                let l = live.entry(e.stream).or_insert(0);
                *l -= 1;
                if *l <= 0 {
                    if let Some(s) = ix.streams.get_mut(&e.stream) {
                        if s.removed_call.is_none() {
                            s.removed_call = Some(e.t_call);
                            s.removed_ret = Some(e.t_ret);
                        }
                    }
                }
            }
            _ => {}
        }
        if e.op.is_recv() {
            if let Some(s) = ix.streams.get_mut(&e.stream) {
                match e.res {
                    Res::Val(id) => {
                        s.deliveries.push(Deliv {
                            id,
                            pos: e.pos,
                            handle: e.handle,
                            t_call: e.t_call,
                            t_ret: e.t_ret,
                            op: e.op,
                        });
                        if e.pos == NO_POS {
                            ix.pos_ok = false;
                        }
                    }
                    Res::End => {
                        if s.first_end.is_none() {
                            s.first_end = Some((e.t_call, e.t_ret));
                        }
                    }
                    _ => {}
                }
            }
        }
    }
    // the removal of a stream is when its LAST handle goes: recompute precisely from
    // per-stream handle drops (the running count above can be off when drops overlap)
    for d in &c.probe_drained {
        if let Some(s) = ix.streams.get_mut(d) {
            s.probe_drained = true;
        }
    }
    ix
}

/// C01 — exactly-once delivery
pub fn check_c01(c: &CheckCtx, ix: &Index) {
    let p = tag("C01", c.also);
    for e in c.h {
        if e.op.is_send() && e.done() && !e.echo_ok {
            violation(
                p,
                "refused-echo",
                "refused-echo:not-identical".to_string(),
                format!("refused send handed back a different value than was passed in: {}", e.show()),
            );
        }
    }
    let total = ix.accepted.len() as u64;
    for s in ix.streams.values() {
        let mut seen: HashMap<u64, &Deliv> = HashMap::new();
        for d in &s.deliveries {
            if let Some(first) = seen.get(&d.id) {
                violation(
                    p,
                    "duplicate-delivery",
                    "duplicate-delivery".to_string(),
                    format!(
                        "stream {} delivered id {:#x} twice: handle {} at [{}..{}] and handle {} at [{}..{}]",
                        s.id, d.id, first.handle, first.t_call, first.t_ret, d.handle, d.t_call, d.t_ret
                    ),
                );
            } else {
                seen.insert(d.id, d);
            }
            if !ix.accepted_by_id.contains_key(&d.id) && !ix.open_sends.contains(&d.id) {
                let refused = ix.refused.contains(&d.id);
                violation(
                    p,
                    "phantom-delivery",
                    format!("phantom-delivery:{}", if refused { "refused-value" } else { "never-sent" }),
                    format!(
                        "stream {} delivered id {:#x} which {} (handle {}, [{}..{}])",
                        s.id,
                        d.id,
                        if refused { "was refused and handed back to its sender" } else { "no send accepted" },
                        d.handle,
                        d.t_call,
                        d.t_ret
                    ),
                );
            }
        }
        if !ix.pos_ok || s.deliveries.is_empty() && !s.probe_drained && s.first_end.is_none() {
            continue;
        }
        // contiguity of the delivered range
        let mut ps: Vec<u64> = s.deliveries.iter().map(|d| d.pos).collect();
        ps.sort_unstable();
        for w in ps.windows(2) {
            if w[1] != w[0] + 1 && w[1] != w[0] {
                violation(
                    if s.parent.is_some() { "C01,C10" } else { p },
                    "delivery-gap",
                    "delivery-gap".to_string(),
                    format!(
                        "stream {} delivered position {} and then {}: positions {}..{} were skipped (never delivered to this stream)",
                        s.id,
                        w[0],
                        w[1],
                        w[0] + 1,
                        w[1] - 1
                    ),
                );
                break;
            }
        }
        if s.parent.is_none() {
            if let Some(first) = ps.first() {
                if *first != 0 {
                    violation(
                        p,
                        "delivery-gap",
                        "delivery-gap:initial-stream-start".to_string(),
                        format!("initial stream {} first delivered position {} instead of 0", s.id, first),
                    );
                }
            }
        }
        // completeness of drained streams
        let drained = s.probe_drained || s.first_end.is_some();
        if drained && ix.open_sends.is_empty() {
            if let Some(last) = ps.last() {
                if *last + 1 != total {
                    violation(
                        p,
                        "lost-value",
                        "lost-value:drained-stream-short".to_string(),
                        format!(
                            "stream {} was drained (probe/end of stream) but its last delivered position is {} while {} values were accepted: positions {}..{} never reached it",
                            s.id,
                            last,
                            total,
                            last + 1,
                            total - 1
                        ),
                    );
                }
            } else if s.parent.is_none() && total > 0 {
                violation(
                    p,
                    "lost-value",
                    "lost-value:drained-stream-empty".to_string(),
                    format!("initial stream {} drained without delivering any of the {} accepted values", s.id, total),
                );
            }
        }
    }
}

/// C02 — one order: precedence graph acyclicity + positions forward
pub fn check_c02(c: &CheckCtx, ix: &Index) {
    let p = tag("C02", c.also);
    // position <-> id bijection
    if ix.pos_ok {
        let mut by_pos: HashMap<u64, u64> = HashMap::new();
        for s in &ix.accepted {
            if let Some(other) = by_pos.insert(s.pos, s.id) {
                violation(
                    "C02,C01",
                    "position-claimed-twice",
                    "position-claimed-twice".to_string(),
                    format!("two accepted sends claimed position {}: ids {:#x} and {:#x}", s.pos, other, s.id),
                );
            }
        }
        if ix.open_sends.is_empty() {
            let total = ix.accepted.len() as u64;
            for s in &ix.accepted {
                if s.pos >= total {
                    violation(
                        "C02,C01",
                        "position-out-of-range",
                        "position-out-of-range".to_string(),
                        format!("accepted send {:#x} claimed position {} but only {} sends were accepted", s.id, s.pos, total),
                    );
                    break;
                }
            }
        }
        for st in ix.streams.values() {
            for d in &st.deliveries {
                if let Some(&i) = ix.accepted_by_id.get(&d.id) {
                    if ix.accepted[i].pos != d.pos {
                        violation(
                            p,
                            "position-mismatch",
                            "position-mismatch".to_string(),
                            format!(
                                "stream {} delivered id {:#x} at position {} but it was sent at position {}",
                                st.id, d.id, d.pos, ix.accepted[i].pos
                            ),
                        );
                    }
                }
            }
        }
    }
    // precedence graph over accepted ids
    let nn = ix.accepted.len();
    let mut adj: Vec<Vec<(u32, u8)>> = vec![Vec::new(); nn];
    let mut indeg: Vec<u32> = vec![0; nn];
    let mut add = |a: usize, b: usize, why: u8, adj: &mut Vec<Vec<(u32, u8)>>, indeg: &mut Vec<u32>| {
        if a != b {
            adj[a].push((b as u32, why));
            indeg[b] += 1;
        }
    };
    // (a) each handle's own receive sequence
    for st in ix.streams.values() {
        let mut per_handle: HashMap<u32, Vec<&Deliv>> = HashMap::new();
        for d in &st.deliveries {
            per_handle.entry(d.handle).or_default().push(d);
        }
        for (_, v) in per_handle.iter_mut() {
            v.sort_by_key(|d| d.t_call);
            for w in v.windows(2) {
                if let (Some(&a), Some(&b)) = (ix.accepted_by_id.get(&w[0].id), ix.accepted_by_id.get(&w[1].id)) {
                    add(a, b, 1, &mut adj, &mut indeg);
                }
            }
        }
        // (d) real-time order of receives on the same stream (cursor is monotone)
        let mut ds: Vec<&Deliv> = st.deliveries.iter().collect();
        ds.sort_by_key(|d| d.t_call);
        let mut frontier: Vec<&Deliv> = Vec::new();
        // sweep: when a delivery begins, every delivery that has already returned precedes it
        let mut by_ret: Vec<&Deliv> = st.deliveries.iter().collect();
        by_ret.sort_by_key(|d| d.t_ret);
        let mut ri = 0;
        for d in ds {
            while ri < by_ret.len() && by_ret[ri].t_ret < d.t_call {
                // keep only a maximal antichain: drop entries that returned before this one began
                let nb = by_ret[ri];
                frontier.retain(|f| !(f.t_ret < nb.t_call));
                frontier.push(nb);
                ri += 1;
            }
            for f in &frontier {
                if let (Some(&a), Some(&b)) = (ix.accepted_by_id.get(&f.id), ix.accepted_by_id.get(&d.id)) {
                    add(a, b, 4, &mut adj, &mut indeg);
                }
            }
        }
    }
    // (b) per-producer-thread send order, (c) real-time order between sends
    {
        let mut per_thread: HashMap<u32, Vec<usize>> = HashMap::new();
        for (i, s) in ix.accepted.iter().enumerate() {
            per_thread.entry(s.thread).or_default().push(i);
        }
        for (_, v) in per_thread.iter_mut() {
            v.sort_by_key(|&i| ix.accepted[i].t_call);
            for w in v.windows(2) {
                add(w[0], w[1], 2, &mut adj, &mut indeg);
            }
        }
        let mut by_call: Vec<usize> = (0..nn).collect();
        by_call.sort_by_key(|&i| ix.accepted[i].t_call);
        let mut by_ret: Vec<usize> = (0..nn).collect();
        by_ret.sort_by_key(|&i| ix.accepted[i].t_ret);
        let mut frontier: Vec<usize> = Vec::new();
        let mut ri = 0;
        for &b in &by_call {
            while ri < by_ret.len() && ix.accepted[by_ret[ri]].t_ret < ix.accepted[b].t_call {
                let nb = by_ret[ri];
                frontier.retain(|&f| !(ix.accepted[f].t_ret < ix.accepted[nb].t_call));
                frontier.push(nb);
                ri += 1;
            }
            for &a in &frontier {
                add(a, b, 3, &mut adj, &mut indeg);
            }
        }
    }
    // Kahn
    let mut q: Vec<usize> = (0..nn).filter(|&i| indeg[i] == 0).collect();
    let mut done = 0;
    while let Some(u) = q.pop() {
        done += 1;
        for &(v, _) in &adj[u] {
            indeg[v as usize] -= 1;
            if indeg[v as usize] == 0 {
                q.push(v as usize);
            }
        }
    }
    if done != nn {
        // find a short witness: an edge that goes backwards in position, else any node in a cycle
        let mut witness = String::new();
        'outer: for u in 0..nn {
            for &(v, why) in &adj[u] {
                if ix.pos_ok && ix.accepted[u].pos > ix.accepted[v as usize].pos {
                    witness = format!(
                        "{:#x}(pos {}) must precede {:#x}(pos {}) because {}",
                        ix.accepted[u].id,
                        ix.accepted[u].pos,
                        ix.accepted[v as usize].id,
                        ix.accepted[v as usize].pos,
                        why_text(why)
                    );
                    break 'outer;
                }
            }
        }
        violation(
            p,
            "order-cycle",
            "order-cycle".to_string(),
            format!(
                "no total order is consistent with the observations ({} of {} values lie on precedence cycles); e.g. {}",
                nn - done,
                nn,
                witness
            ),
        );
    } else if ix.pos_ok {
        // every observed precedence must go forward in claimed position
        for u in 0..nn {
            for &(v, why) in &adj[u] {
                if ix.accepted[u].pos >= ix.accepted[v as usize].pos {
                    violation(
                        p,
                        "order-vs-position",
                        format!("order-vs-position:{}", why_short(why)),
                        format!(
                            "{:#x} (position {}) was observed before {:#x} (position {}) because {}",
                            ix.accepted[u].id,
                            ix.accepted[u].pos,
                            ix.accepted[v as usize].id,
                            ix.accepted[v as usize].pos,
                            why_text(why)
                        ),
                    );
                    return;
                }
            }
        }
    }
}

fn why_text(w: u8) -> &'static str {
    match w {
        1 => "one consumer handle received them in that order",
        2 => "the same producer sent them in that order",
        3 => "the first send returned before the second send began",
        4 => "on the same stream the first receive returned before the second began",
        _ => "?",
    }
}
fn why_short(w: u8) -> &'static str {
    match w {
        1 => "consumer-sequence",
        2 => "producer-order",
        3 => "real-time-sends",
        4 => "real-time-receives",
        _ => "?",
    }
}

/// C03 — capacity bound
pub fn check_c03(c: &CheckCtx, ix: &Index) {
    let p = tag("C03", c.also);
    if !ix.pos_ok {
        return;
    }
    let n = ix.n;
    for st in ix.streams.values() {
        // position -> delivery on this stream
        let mut by_pos: HashMap<u64, &Deliv> = HashMap::new();
        for d in &st.deliveries {
            by_pos.entry(d.pos).or_insert(d);
        }
        let start = match st
            .start_pos
            .or_else(|| st.deliveries.iter().map(|d| d.pos).min())
            .or(st.start_hi)
        {
            Some(s) => s,
            None => continue, // never delivered anything and start unknown: no obligation can be pinned down
        };
        for x in &ix.accepted {
            if x.pos < n {
                continue;
            }
            let need = x.pos - n;
            if need < start {
                continue;
            }
            // the stream must have existed when X returned
            if st.created.1 >= x.t_ret {
                continue;
            }
            // and not be in the middle of being removed
            if let Some(rc) = st.removed_call {
                if rc <= x.t_ret {
                    continue;
                }
            }
            match by_pos.get(&need) {
                Some(y) => {
                    if x.t_ret < y.t_call {
                        violation(
                            p,
                            "capacity-exceeded",
                            "capacity-exceeded:send-returned-before-consume-began".to_string(),
                            format!(
                                "send of {:#x} at position {} returned at {} before stream {} began (at {}) the receive that consumes position {} (N={}): N+1 values were unconsumed",
                                x.id, x.pos, x.t_ret, st.id, y.t_call, need, n
                            ),
                        );
                        return;
                    }
                }
                None => {
                    // Never consumed by a stream that was subscribed when X returned (its removal, if
                    // any, began later): at that moment N+1 accepted values were unconsumed by it.
                    {
                        violation(
                            p,
                            "capacity-exceeded",
                            "capacity-exceeded:overwrote-unconsumed".to_string(),
                            format!(
                                "send of {:#x} at position {} was accepted although stream {} never consumed position {} (N={})",
                                x.id, x.pos, st.id, need, n
                            ),
                        );
                        return;
                    }
                }
            }
        }
    }
}

/// C07 — end of stream only after every sender is gone and everything was delivered; sticky
pub fn check_c07(c: &CheckCtx, ix: &Index) {
    let total_tx = ix.tx_created;
    for st in ix.streams.values() {
        let mut ends: Vec<&Event> = c
            .h
            .iter()
            .filter(|e| e.stream == st.id && e.op.is_recv() && e.res == Res::End)
            .collect();
        ends.sort_by_key(|e| e.t_call);
        let first = match ends.first() {
            Some(f) => *f,
            None => continue,
        };
        // (a) every sender handle's drop had begun before the end result returned
        let begun = ix.tx_drops.iter().filter(|d| d.1 < first.t_ret).count() as u32;
        if begun < total_tx {
            violation(
                "C07",
                "end-while-sender-alive",
                "end-while-sender-alive".to_string(),
                format!(
                    "{} on stream {} reported the end at [{}..{}] while {} of {} sender handles had not even begun to drop",
                    first.op.name(),
                    st.id,
                    first.t_call,
                    first.t_ret,
                    total_tx - begun,
                    total_tx
                ),
            );
        }
        // (b) every accepted value at/after the stream's start was delivered by a receive begun before
        if ix.pos_ok {
            let start = st.start_pos.or_else(|| st.deliveries.iter().map(|d| d.pos).min());
            let delivered: HashMap<u64, &Deliv> = st.deliveries.iter().map(|d| (d.pos, d)).collect();
            if let Some(start) = start {
                for x in &ix.accepted {
                    if x.pos < start {
                        continue;
                    }
                    // only sends that completed before the end was reported are certainly "accepted before"
                    if x.t_ret > first.t_call {
                        continue;
                    }
                    let ok = match delivered.get(&x.pos) {
                        Some(d) => d.t_call < first.t_ret,
                        None => false,
                    };
                    if !ok {
                        violation(
                            "C07,C01",
                            "end-before-drained",
                            "end-before-drained".to_string(),
                            format!(
                                "stream {} reported the end at [{}..{}] but accepted value {:#x} (position {}) had not been delivered to it",
                                st.id, first.t_call, first.t_ret, x.id, x.pos
                            ),
                        );
                        break;
                    }
                }
            }
        }
        // (c) sticky: later-starting receives on the stream report the end
        for e in c.h.iter().filter(|e| e.stream == st.id && e.op.is_recv() && e.t_call > first.t_ret) {
            match e.res {
                Res::End | Res::IterNone | Res::Open | Res::Panic => {}
                _ => {
                    violation(
                        "C07",
                        "end-not-sticky",
                        format!("end-not-sticky:{}", e.res.code()),
                        format!(
                            "stream {} reported the end at [{}..{}] but a later call did not: {}",
                            st.id,
                            first.t_call,
                            first.t_ret,
                            e.show()
                        ),
                    );
                    break;
                }
            }
        }
    }
    // (d) a non-blocking receive begun after the last sender's drop returned must not say Empty
    if ix.tx_drops.len() as u32 >= total_tx && total_tx > 0 {
        let all_dropped_at = ix.tx_drops.iter().map(|d| d.2).max().unwrap();
        for e in c.h.iter() {
            if e.op.is_recv() && e.t_call > all_dropped_at && matches!(e.res, Res::Empty | Res::NotReady) {
                violation(
                    "C07",
                    "empty-after-last-sender",
                    format!("empty-after-last-sender:{}", e.op.name()),
                    format!(
                        "every sender handle was dropped by {} yet a later receive reported {:?} instead of a value or the end: {}",
                        all_dropped_at,
                        e.res,
                        e.show()
                    ),
                );
                break;
            }
        }
    }
}

pub struct AddStreamFacts {
    pub stream: u32,
    pub parent: u32,
    pub lo: u64,
    pub hi: u64,
    pub sibling_overlap: bool,
    pub parent_handles_at_call: u32,
    pub p0: Option<u64>,
    pub in_range: bool,
}

/// C10 — start position of streams created by add_stream
pub fn check_c10(c: &CheckCtx, ix: &mut Index) -> Vec<AddStreamFacts> {
    let mut facts = Vec::new();
    if !ix.pos_ok {
        return facts;
    }
    let total = ix.accepted.len() as u64;
    let mut his: Vec<(u32, u64)> = Vec::new();
    for st in ix.streams.values() {
        let parent = match st.parent {
            Some(p) => p,
            None => continue,
        };
        let ps = match ix.streams.get(&parent) {
            Some(p) => p,
            None => continue,
        };
        let pstart = match ps.start_pos.or_else(|| ps.deliveries.iter().map(|d| d.pos).min()) {
            Some(s) => s,
            None => {
                // parent never delivered: its cursor is its own start; use recursion-free bound
                match parent_start_bound(ix, parent) {
                    Some(s) => s,
                    None => continue,
                }
            }
        };
        let (tc, tr) = st.created;
        let lo = pstart + ps.deliveries.iter().filter(|d| d.t_ret < tc).count() as u64;
        let hi = pstart + ps.deliveries.iter().filter(|d| d.t_call < tr).count() as u64;
        his.push((st.id, hi));
        // the handle that made the call
        let caller = c
            .h
            .iter()
            .find(|e| e.op == Op::AddStream && e.t_call == tc)
            .map(|e| e.handle)
            .unwrap_or(0);
        let sibling_overlap = ps
            .deliveries
            .iter()
            .any(|d| d.handle != caller && d.t_call < tr && d.t_ret > tc)
            || c.h.iter().any(|e| {
                e.stream == parent && e.handle != caller && e.op.is_recv() && e.t_call < tr && e.t_ret > tc
            });
        let p0 = st.deliveries.iter().map(|d| d.pos).min();
        let drained = st.probe_drained || st.first_end.is_some();
        let mut in_range = true;
        let mut what = String::new();
        match p0 {
            Some(p0) => {
                if p0 < lo || p0 > hi {
                    in_range = false;
                    what = format!("first delivered position {} outside [{}, {}]", p0, lo, hi);
                }
            }
            None => {
                if drained && hi < total && ix.open_sends.is_empty() {
                    in_range = false;
                    what = format!(
                        "stream delivered nothing although it was drained and {} values were accepted at or after the latest possible start {}",
                        total - hi,
                        hi
                    );
                }
            }
        }
        if !in_range {
            let sig = if sibling_overlap {
                "add-stream-start:shared-parent-advanced-during-call"
            } else {
                "add-stream-start:out-of-range"
            };
            violation(
                "C10",
                "add-stream-start",
                sig.to_string(),
                format!(
                    "stream {} created by add_stream on stream {} at [{}..{}]: {} (parent position between {} and {} during the call; sibling consumer of the parent overlapped the call: {})",
                    st.id, parent, tc, tr, what, lo, hi, sibling_overlap
                ),
            );
        }
        facts.push(AddStreamFacts {
            stream: st.id,
            parent,
            lo,
            hi,
            sibling_overlap,
            parent_handles_at_call: 0,
            p0,
            in_range,
        });
    }
    for (sid, hi) in his {
        if let Some(s) = ix.streams.get_mut(&sid) {
            s.start_hi = Some(hi);
        }
    }
    facts
}

fn parent_start_bound(ix: &Index, s: u32) -> Option<u64> {
    let st = ix.streams.get(&s)?;
    if let Some(p) = st.start_pos {
        return Some(p);
    }
    st.deliveries.iter().map(|d| d.pos).min()
}

/// C11 — unsubscribe() boolean where the handle count is unambiguous
pub fn check_c11_bool(c: &CheckCtx, _ix: &Index) {
    // handle life-cycle events per stream (only these can change the handle count)
    let mut life: HashMap<u32, Vec<&Event>> = HashMap::new();
    for e in c.h.iter() {
        match e.op {
            Op::CloneRx | Op::DropRx | Op::Unsub | Op::IntoSingle | Op::IntoMulti | Op::Transform => {
                life.entry(e.stream).or_default().push(e);
            }
            Op::AddStream => {
                if let Res::New { stream, .. } = e.res {
                    life.entry(stream).or_default().push(e);
                }
            }
            _ => {}
        }
    }
    for u in c.h.iter().filter(|e| e.op == Op::Unsub) {
        let b = match u.res {
            Res::Bool(b) => b,
            _ => continue,
        };
        let s = u.stream;
        // any other clone/drop/unsub/add_stream-creating on this stream overlapping U makes it ambiguous
        let mut ambiguous = false;
        let mut alive: i64 = if s == c.first_stream { 1 } else { 0 };
        if let Some(evs) = life.get(&s) {
            for e in evs.iter() {
                if std::ptr::eq(*e, u) {
                    continue;
                }
                if e.t_call < u.t_ret && e.t_ret > u.t_call {
                    ambiguous = true;
                    break;
                }
                if e.t_ret < u.t_call {
                    match e.op {
                        Op::CloneRx => alive += 1,
                        Op::AddStream => alive += 1,
                        Op::DropRx | Op::Unsub => alive -= 1,
                        _ => {}
                    }
                }
            }
        }
        if ambiguous {
            continue;
        }
        if b != (alive == 1) {
            violation(
                "C11",
                "unsubscribe-bool",
                format!("unsubscribe-bool:concurrent:{}-vs-{}", alive == 1, b),
                format!(
                    "unsubscribe() on stream {} returned {} but {} handle(s) of that stream were alive and no other handle operation overlapped: {}",
                    s,
                    b,
                    alive,
                    u.show()
                ),
            );
        }
    }
}

/// C13 — a send begun after the drop of the last receiver handle returned must be Disconnected
pub fn check_c13(c: &CheckCtx, _ix: &Index) {
    // every receiver handle ever created: the first one + one per CloneRx/AddStream result
    let mut created = 1usize;
    let mut drops: Vec<u64> = Vec::new();
    for e in c.h {
        match e.op {
            Op::CloneRx | Op::AddStream => {
                if let Res::New { .. } = e.res {
                    created += 1;
                } else if !e.done() {
                    return; // an open handle-creating call: count unknown
                }
            }
            Op::DropRx | Op::Unsub => {
                if e.done() {
                    drops.push(e.t_ret);
                }
            }
            _ => {}
        }
    }
    // Once every receiver handle is inside its final drop/unsubscribe call nothing is consumed any
    // more. Each send invoked after that point is either still limited by a stream whose removal has
    // not taken effect yet (and that stream stands still) or finds no stream at all: whatever the
    // order in which the removals take effect, at most N of these sends can be accepted.
    let leaving: Vec<u64> = c.h.iter().filter(|e| matches!(e.op, Op::DropRx | Op::Unsub)).map(|e| e.t_call).collect();
    if leaving.len() >= created {
        let all_leaving_at = *leaving.iter().max().unwrap();
        let late_ok: Vec<&crate::hist::Event> = c
            .h
            .iter()
            .filter(|e| e.op.is_send() && e.t_call > all_leaving_at && e.res == Res::Ok)
            .collect();
        if late_ok.len() as u64 > c.n {
            violation(
                "C03,C13",
                "capacity-exceeded",
                "capacity-exceeded:accepted-after-every-receiver-began-leaving".to_string(),
                format!(
                    "{} sends were invoked after every receiver handle had entered its final drop/unsubscribe (by {}) and were accepted, but the queue holds N={} values and nothing is consumed any more; first: {} last: {}",
                    late_ok.len(),
                    all_leaving_at,
                    c.n,
                    late_ok[0].show(),
                    late_ok[late_ok.len() - 1].show()
                ),
            );
        }
    }
    if drops.len() < created {
        return;
    }
    let gone_at = *drops.iter().max().unwrap();
    for e in c.h {
        if e.op.is_send() && e.t_call > gone_at && e.done() && e.res != Res::Disc {
            violation(
                "C13",
                "no-receiver-send",
                format!("no-receiver-send:concurrent:returns-{:?}", e.res),
                format!(
                    "the last receiver handle was dropped by {} but a later send did not fail as Disconnected: {}",
                    gone_at,
                    e.show()
                ),
            );
            return;
        }
        if e.op.is_send() && e.t_call > gone_at && e.done() && !e.echo_ok {
            violation(
                "C13",
                "no-receiver-send",
                "no-receiver-send:value-not-handed-back".to_string(),
                format!("Disconnected send did not hand back the same value: {}", e.show()),
            );
            return;
        }
    }
}

/// C11 — when the last handles of a stream leave through overlapping unsubscribe() calls, exactly
/// one of them was the last one and must say so
pub fn check_c11_group(c: &CheckCtx, _ix: &Index) {
    use std::collections::BTreeMap;
    // handle life-cycle per stream
    let mut created: BTreeMap<u32, i64> = BTreeMap::new();
    created.insert(c.first_stream, 1);
    let mut removals: BTreeMap<u32, Vec<&Event>> = BTreeMap::new();
    for e in c.h {
        match e.op {
            Op::CloneRx | Op::AddStream => {
                if let Res::New { stream, .. } = e.res {
                    *created.entry(stream).or_insert(0) += 1;
                } else if !e.done() {
                    return;
                }
            }
            Op::DropRx | Op::Unsub => {
                if !e.done() {
                    return;
                }
                removals.entry(e.stream).or_default().push(e);
            }
            _ => {}
        }
    }
    for (s, rs) in removals.iter() {
        let n = *created.get(s).unwrap_or(&0);
        if (rs.len() as i64) < n || n == 0 {
            continue; // stream still had handles at the end of the history
        }
        // the group of removals that overlap (transitively) with the one that returned last
        let mut rs: Vec<&Event> = rs.clone();
        rs.sort_by_key(|e| e.t_ret);
        let last = rs[rs.len() - 1];
        let mut group: Vec<&Event> = vec![last];
        let mut lo = last.t_call;
        loop {
            let mut grew = false;
            for e in rs.iter() {
                if group.iter().any(|g| std::ptr::eq(*g, *e)) {
                    continue;
                }
                if e.t_ret > lo {
                    group.push(e);
                    lo = lo.min(e.t_call);
                    grew = true;
                }
            }
            if !grew {
                break;
            }
        }
        let trues = group.iter().filter(|e| e.res == Res::Bool(true)).count();
        let all_unsub = group.iter().all(|e| e.op == Op::Unsub && matches!(e.res, Res::Bool(_)));
        let outside_true = rs
            .iter()
            .filter(|e| !group.iter().any(|g| std::ptr::eq(*g, **e)) && e.res == Res::Bool(true))
            .count();
        if trues + outside_true > 1 || (all_unsub && trues == 0) {
            violation(
                "C11",
                "unsubscribe-bool",
                format!("unsubscribe-bool:last-group:{}-true", trues + outside_true),
                format!(
                    "stream {} lost all its {} handles; the removals that overlapped the final one were {:?}: {} of them reported 'was the last handle' (exactly one must)",
                    s,
                    n,
                    group.iter().map(|e| e.show()).collect::<Vec<_>>(),
                    trues + outside_true
                ),
            );
        }
    }
}
