#!/bin/bash
# usage: lib/confirm_seeded.sh <dir with patch.diff + demo.rs>
# Confirms in a scratch worktree (outside /repo and /verif) that the change compiles, the existing
# suite still passes with it, and the demonstration fails with it and passes without it.
d=$(readlink -f "$1")
wt=/tmp/confirm_wt_$$
export CARGO_TARGET_DIR=${CONFIRM_TARGET:-/tmp/confirm_target}
git -C /repo worktree add -q --detach $wt HEAD || exit 3
cleanup() { git -C /repo worktree remove --force $wt; }
trap cleanup EXIT
cd $wt
git apply "$d/patch.diff" || { echo "CONFIRM patch_applies=no"; exit 3; }
suite=$(timeout 900 cargo test --workspace --offline -- --test-threads 8 2>&1 | grep -E '^test result' | tr '\n' ';')
suite_ok=yes; echo "$suite" | grep -q 'FAILED\|[1-9][0-9]* failed' && suite_ok=no
[ -z "$suite" ] && suite_ok=no
with=none; without=none
if [ -f "$d/demo.rs" ]; then
  cp "$d/demo.rs" tests/demo.rs
  fails=0; for i in 1 2 3; do timeout 600 cargo test --offline --test demo >/tmp/confirm_demo_$$.log 2>&1 || fails=$((fails+1)); done
  with="$fails/3 runs fail"
  git checkout -- src
  passes=0; for i in 1 2 3; do timeout 600 cargo test --offline --test demo >/tmp/confirm_demo_$$.log 2>&1 && passes=$((passes+1)); done
  without="$passes/3 runs pass"
fi
echo "CONFIRM dir=$d suite_passes_with_change=$suite_ok demo_with_change=[$with] demo_without_change=[$without] suite=[$suite]"
