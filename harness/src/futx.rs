//! mq-fut (C14, C13 parking race, C15 concurrent): the harness is the executor.
//! Tasks are polled only when notified (like a real executor). At global quiescence -
//! every thread finished or parked on its own notification flag, no notification
//! pending - each parked task is probe-polled once: if the probe makes progress the
//! task had been left parked although it could make progress and nobody was going to
//! notify it. The verdict is the implementation's own answer; no model, no clock.
use std::sync::atomic::Ordering::SeqCst;
use std::sync::atomic::{AtomicBool, AtomicU32, AtomicU64};
use std::sync::Arc;
use std::time::{Duration, Instant};

use multiqueue2::verif_hooks as vh;

use crate::api::{self, Flavour, RecvKind, RecvOut, RxH, SendOut, TxH, WaitKind};
use crate::checkers::{self, CheckCtx};
use crate::hist;
use crate::hooks::{self, site, Policy, Stall};
use crate::model::capacity_for;
use crate::out::J;
use crate::payload::{self, violation};
use crate::report::Shard;
use crate::rng::{Hasher64, Rng};

const MAXT: usize = hooks::MAX_THREADS;
const RUNNING: u32 = 0;
const PARKED: u32 = 1;
const DONE: u32 = 2;
/// a plain thread inside the direct blocking recv(): not a task, cannot publish its own state
const BLOCKING_DIRECT: u32 = 3;

#[derive(Clone, Copy, Debug, PartialEq)]
pub enum StreamMode {
    /// a task that polls until the end of the stream
    Poll,
    /// a plain thread draining through the direct try_recv method (not a task)
    Direct,
    /// poll k values, then drop the receiver
    PollDrop(u32),
    /// direct try_recv k values, then drop the receiver
    DirectDrop(u32),
    /// a plain thread sitting in the direct *blocking* recv() until the end of the stream
    DirectRecv,
    /// a task that polls k values, then creates a stream with add_stream, drops the parent handle and
    /// keeps polling the new stream until the end
    PollAdd(u32),
    /// a task that polls k values and then simply stops polling (it keeps its receiver, idle, until
    /// the scenario is over): whatever its last successful poll freed must have been announced by
    /// that poll itself, nobody comes back to an empty stream afterwards
    PollPause(u32),
    /// the same through the direct try_recv method of a plain thread: k values, then nothing more
    DirectPause(u32),
}

#[derive(Clone, Debug)]
pub struct FutCfg {
    pub fl: Flavour,
    pub cap: u64,
    pub spins: Option<(usize, usize)>,
    pub sinks: Vec<(u32, bool)>, // (values, drop sender at end)
    pub streams: Vec<Vec<(StreamMode, bool)>>, // per stream: consumers (mode, uni)
    pub policy: Policy,
    pub plan: Vec<Stall>,
    pub seed: u64,
    /// per stream: the receiver went through into_single -> into_multi (and back to single if uni)
    /// before traffic, so the handles in use are *converted* ones
    pub roundtrip: Vec<bool>,
    /// consumers that leave (PollDrop / DirectDrop) wait for each other and drop at the same instant
    pub sync_drop: bool,
    /// per sink: not a task at all but a plain thread that uses the direct try_send method of the
    /// futures sender (retrying on Full) - parked stream tasks must hear about its values as well
    pub direct_sinks: Vec<bool>,
    /// per sink task: now and then it is polled a second time right after a refusal, before it goes to
    /// sleep (a task may be polled at any time: select-style executors do this) - the park list then
    /// holds several entries for one task, which must not cost anybody else a wake-up
    pub repoll_sinks: Vec<bool>,
}

impl FutCfg {
    pub fn describe(&self) -> String {
        format!(
            "fut {} cap={} spins={:?} sinks(values,drop)={:?} direct-try_send={:?} repoll={:?} streams={:?} converted={:?} sync_drop={} policy={} plan=[{}]",
            self.fl.name(),
            self.cap,
            self.spins,
            self.sinks,
            self.direct_sinks,
            self.repoll_sinks,
            self.streams,
            self.roundtrip,
            self.sync_drop,
            self.policy.name(),
            self.plan.iter().map(|s| s.show()).collect::<Vec<_>>().join(", ")
        )
    }
    fn shape(&self) -> u64 {
        let mut h = Hasher64::new();
        h.add_str(&format!("{:?}{:?}{:?}{:?}{:?}", self.fl, self.cap, self.spins, self.sinks, self.streams));
        h.add_str(self.policy.name());
        h.get()
    }
}

struct Shared {
    go: AtomicBool,
    shutdown: AtomicBool,
    state: Vec<AtomicU32>,
    /// notification count the parked task is waiting to see change
    seen: Vec<AtomicU32>,
    note_now: Vec<AtomicU32>,
    probe: Vec<AtomicU32>, // 0 none, 1 requested, 2 answered: no progress, 3 answered: progress
    sinks_active: AtomicU32,
    threads_done: AtomicU32,
    progress_ops: AtomicU64,
    is_task: Vec<AtomicBool>,
    /// verdicts of probe polls, recorded by the supervisor only after it has re-validated quiescence
    pending: std::sync::Mutex<Vec<(&'static str, String, String)>>,
    /// leaving consumers that have reached their quota / how many there are (simultaneous drop)
    leavers_ready: AtomicU32,
    leavers_total: u32,
    /// set by the supervisor when tasks keep being woken without anybody making progress (a wake-up
    /// storm): parked tasks then stay parked even if notified, so that the scenario can be judged
    settle: AtomicBool,
    polls: AtomicU64,
    receivers_alive: AtomicU32,
    /// set once by the supervisor when the scenario has come to rest with senders still held by
    /// finished sink threads: they drop them now, and everybody parked must learn about the end
    late_release: AtomicBool,
    holders: AtomicU32,
}

/// `--crowd`: every second scenario has 9-12 parked stream tasks
pub static CROWD_BIAS: AtomicBool = AtomicBool::new(false);

pub fn gen_cfg(rng: &mut Rng, small: bool) -> FutCfg {
    let fl = if rng.chance(2, 3) { Flavour::Broadcast } else { Flavour::Mpmc };
    let cap = *rng.pick(&[1u64, 2]);
    let spins = if fl == Flavour::Broadcast {
        match rng.below(3) {
            0 => None,
            1 => Some((0, 0)),
            _ => Some((0, 0)),
        }
    } else {
        None
    };
    // crowds: more than eight tasks parked on one list at the same time (the park lists treat
    // "more than 8" differently from "up to 8")
    let bias = CROWD_BIAS.load(SeqCst);
    let crowd = if small || cfg!(miri) {
        0
    } else if bias && rng.chance(1, 2) {
        1
    } else if rng.chance(1, 8) {
        1 + rng.below(2)
    } else {
        0
    };
    let fl = if crowd == 1 { Flavour::Broadcast } else { fl };
    let nsinks = if crowd == 2 { 9 + rng.below(3) as usize } else { 1 + rng.below(2) as usize };
    // (a crowd of sinks on a one-slot queue wakes everybody for every slot: keep their scripts short)
    let vmax = if crowd == 2 { 2 } else if small { 4 } else { 12 };
    // a crowd of parked stream tasks is told about the end of the stream by the last sender's drop
    let sinks: Vec<(u32, bool)> = (0..nsinks).map(|_| (1 + rng.below(vmax) as u32, rng.chance(1, 2))).collect();
    let nstreams = if crowd == 1 {
        9 + rng.below(4) as usize
    } else if fl == Flavour::Mpmc {
        1
    } else {
        1 + rng.below(2) as usize
    };
    let mut streams = Vec::new();
    let mut total = 0;
    for _ in 0..nstreams {
        let mut k = 1 + rng.below(2) as usize;
        if total + k > 3 || crowd != 0 {
            k = 1;
        }
        total += k;
        let mut cs = Vec::new();
        for _ in 0..k {
            let mode = match if crowd == 1 { 0 } else { rng.below(8) } {
                0 | 1 | 2 => StreamMode::Poll,
                3 | 4 => StreamMode::Direct,
                5 => {
                    if rng.chance(1, 2) {
                        StreamMode::PollDrop(1 + rng.below(3) as u32)
                    } else {
                        StreamMode::PollPause(1 + rng.below(3) as u32)
                    }
                }
                6 => {
                    if rng.chance(1, 2) {
                        StreamMode::DirectDrop(1 + rng.below(3) as u32)
                    } else {
                        StreamMode::DirectPause(1 + rng.below(3) as u32)
                    }
                }
                _ => {
                    // add_stream during traffic only on a stream whose handle is the sole one: on a
                    // parent that a sibling is consuming the call is the open finding of C10
                    if fl == Flavour::Broadcast && k == 1 && rng.chance(2, 3) {
                        StreamMode::PollAdd(1 + rng.below(3) as u32)
                    } else {
                        StreamMode::DirectRecv
                    }
                }
            };
            cs.push((mode, k == 1 && rng.chance(1, 3)));
        }
        streams.push(cs);
    }
    let policy = match rng.below(4) {
        0 => Policy::Yield,
        1 => Policy::None,
        _ => Policy::Stall,
    };
    let mut plan = Vec::new();
    if policy == Policy::Stall {
        let c = (1 << crate::conc::ROLE_CONSUMER) | (1 << crate::conc::ROLE_AUX);
        let p = 1 << crate::conc::ROLE_PRODUCER;
        let sites = [
            (site::FW_PARK_LOCKED, c),
            (site::FW_PARK_CHECKED, c),
            (site::B_EMPTY, c),
            (site::B_EMPTY, c),
            (site::B_BEFORE_WAIT, c),
            (site::FW_SOP_BEFORE_LOCK, p),
            (site::FW_SOP_BEFORE_LOCK, p),
            (site::FW_SOP_FULL, p),
            (site::FW_NOTIFY_BEFORE_LOCK, p | c),
            (site::TS_BEFORE_NOTIFY, p),
            (site::RX_UNSUB_DEC, c),
            (site::RX_UNSUB_REMOVED, c),
            (site::RX_UNSUB_DONE, c),
            (site::TX_DROP_DEC, p),
            (site::TX_DROP_BEFORE_NOTIFY, p),
            (site::R_UNPINNED, c),
            (site::R_PINNED, c),
            (site::R_PIN_LOST, c),
            (site::V_AFTER_OP, c),
            (hooks::PAYLOAD_MID, c),
            (site::SM_PINOK, p),
            (site::SS_PINOK, p),
        ];
        for _ in 0..(1 + rng.below(3)) {
            let (s, roles) = *rng.pick(&sites);
            plan.push(Stall {
                site: s,
                roles,
                nth: 1 + rng.below(5) as u32,
                events: 5 + rng.below(80) as u32,
                until: None,
                gate: None,
                cap_us: 200,
                max_pauses: 0,
            });
        }
    }
    let roundtrip: Vec<bool> = streams.iter().map(|_| rng.chance(1, 3)).collect();
    let direct_sinks: Vec<bool> = (0..sinks.len()).map(|_| crowd == 0 && rng.chance(1, 5)).collect();
    let n_sinks = sinks.len();
    FutCfg {
        direct_sinks,
        fl,
        cap,
        spins,
        sinks,
        streams,
        policy,
        plan,
        seed: rng.next(),
        roundtrip,
        sync_drop: rng.chance(1, 2),
        repoll_sinks: (0..n_sinks).map(|_| rng.chance(1, 3)).collect(),
    }
}

enum ParkExit {
    Notified,
    Probe,
    Shutdown,
}

/// wait like an executor: until notified; answer probe requests; leave on shutdown
fn park(sh: &Shared, tid: usize, note: &api::TaskNote, before: u32) -> ParkExit {
    sh.seen[tid].store(before, SeqCst);
    sh.state[tid].store(PARKED, SeqCst);
    let mut i = 0u64;
    loop {
        let now = note.count.load(SeqCst);
        sh.note_now[tid].store(now, SeqCst);
        if now != before && !sh.settle.load(SeqCst) {
            sh.state[tid].store(RUNNING, SeqCst);
            sh.polls.fetch_add(1, SeqCst);
            return ParkExit::Notified;
        }
        if sh.probe[tid].load(SeqCst) == 1 {
            return ParkExit::Probe;
        }
        if sh.shutdown.load(SeqCst) {
            return ParkExit::Shutdown;
        }
        i += 1;
        if cfg!(miri) || i % 8 != 0 {
            std::thread::yield_now();
        } else {
            std::thread::sleep(Duration::from_micros(30));
        }
    }
}

fn probe_answer(sh: &Shared, tid: usize, progress: bool, what: &str, kind: &str, cfg: &FutCfg, n: u64) {
    if progress {
        let (seq, tag) = vh::take_wait_pair();
        let mask = (n - 1) as usize;
        let has_direct = cfg
            .streams
            .iter()
            .any(|s| s.iter().any(|c| matches!(c.0, StreamMode::Direct | StreamMode::DirectDrop(_) | StreamMode::DirectPause(_))));
        let ctx = if kind == "stream" && seq != vh::NO_POS && tag != (usize::MAX >> 1) && (tag & mask) != (seq & mask) {
            "wrong-slot"
        } else if kind == "sink" && what == "Err(SendError)" {
            "receivers-gone"
        } else if kind == "sink" && has_direct {
            "space-freed-by-direct-recv"
        } else if kind == "sink" {
            "space-freed"
        } else if what == "Ready(None)" {
            "end-available"
        } else {
            "value-or-end-available"
        };
        let has_leaver = cfg
            .streams
            .iter()
            .any(|s| s.iter().any(|c| matches!(c.0, StreamMode::PollDrop(_) | StreamMode::DirectDrop(_))));
        let has_adder = cfg.streams.iter().any(|s| s.iter().any(|c| matches!(c.0, StreamMode::PollAdd(_))));
        let prop = if what == "Err(SendError)" {
            "C14,C13"
        } else if what == "Ready(None)" {
            // every sender is gone and this stream is never told: it never yields its end
            "C14,C07"
        } else if has_adder {
            // a stream was created with add_stream during this scenario: it must not cost anybody a wake-up
            "C14,C10"
        } else if kind == "sink" && has_leaver {
            // a receiver left during this scenario: a send refused only because of it must be retried
            "C14,C11"
        } else {
            "C14"
        };
        sh.pending.lock().unwrap().push((
            prop,
            format!("parked-unnotified:{}:{}", kind, ctx),
            format!(
                "at global quiescence (every thread finished, parked, or blocked inside a direct recv() with nothing to receive; no notification pending) the parked {} task T{} had not been notified, yet a probe poll returned {}: it could make progress and nobody was going to wake it ({})",
                kind, tid, what, ctx
            ),
        ));
        sh.probe[tid].store(3, SeqCst);
    } else {
        sh.probe[tid].store(2, SeqCst);
    }
}

fn sink_thread(mut tx: TxH, values: u32, drop_at_end: bool, pidx: u32, sh: &Shared, tid: usize, cfg: &FutCfg, n: u64) {
    let mut k = 0;
    if cfg.direct_sinks.get(pidx as usize).copied().unwrap_or(false) {
        // plain thread, never parked: try_send with retries; gives up on a queue that stays full
        // once every task is parked or done
        let mut idle = 0u64;
        let mut refused = 0u64;
        while k < values && !sh.shutdown.load(SeqCst) {
            let id = (((pidx + 1) as u64) << 32) | k as u64;
            match tx.try_send(id) {
                SendOut::Ok => {
                    sh.progress_ops.fetch_add(1, SeqCst);
                    k += 1;
                    idle = 0;
                    refused = 0;
                }
                SendOut::Full => {
                    // every attempt creates a payload instance: a retry loop that spins for seconds
                    // against a paused stream would run the payload ledger out of slots
                    refused += 1;
                    if refused > 20_000 && !cfg!(miri) {
                        std::thread::sleep(Duration::from_micros(100));
                    }
                    let others_idle = (0..MAXT).all(|t| t == tid || !sh.is_task[t].load(SeqCst) || sh.state[t].load(SeqCst) != RUNNING);
                    if others_idle {
                        idle += 1;
                        if idle > 50 {
                            break;
                        }
                    } else {
                        idle = 0;
                    }
                    std::thread::yield_now();
                }
                _ => break,
            }
        }
        k = values;
    }
    let repoll = cfg.repoll_sinks.get(pidx as usize).copied().unwrap_or(false);
    'outer: while k < values {
        let id = (((pidx + 1) as u64) << 32) | k as u64;
        loop {
            let before = tx.note.count.load(SeqCst);
            match tx.start_send(id) {
                SendOut::Ok => {
                    sh.progress_ops.fetch_add(1, SeqCst);
                    k += 1;
                    break;
                }
                SendOut::NotReady => {
                  if repoll && (k + pidx) % 2 == 0 {
                    // spurious second poll of the refused task: one more entry on the park list
                    match tx.start_send(id) {
                        SendOut::Ok => {
                            sh.progress_ops.fetch_add(1, SeqCst);
                            k += 1;
                            break;
                        }
                        SendOut::NotReady => {}
                        _ => break 'outer,
                    }
                  }
                  loop {
                    match park(sh, tid, &tx.note.clone(), before) {
                        ParkExit::Notified => break,
                        ParkExit::Shutdown => break 'outer,
                        ParkExit::Probe => {
                            // probe poll: same message again
                            hist::mark(tx.h, 0, hist::Op::Probe);
                            let b2 = tx.note.count.load(SeqCst);
                            let r = tx.start_send(id);
                            let _ = b2;
                            match r {
                                SendOut::NotReady => {
                                    probe_answer(sh, tid, false, "NotReady", "sink", cfg, n);
                                    continue;
                                }
                                SendOut::Ok => {
                                    probe_answer(sh, tid, true, "AsyncSink::Ready", "sink", cfg, n);
                                    sh.state[tid].store(RUNNING, SeqCst);
                                    k += 1;
                                    continue 'outer;
                                }
                                _ => {
                                    probe_answer(sh, tid, true, "Err(SendError)", "sink", cfg, n);
                                    sh.state[tid].store(RUNNING, SeqCst);
                                    break 'outer;
                                }
                            }
                        }
                    }
                  }
                }
                _ => break 'outer,
            }
        }
    }
    sh.state[tid].store(RUNNING, SeqCst);
    sh.sinks_active.fetch_sub(1, SeqCst);
    if drop_at_end {
        tx.drop_tx(false);
        sh.state[tid].store(DONE, SeqCst);
    } else {
        sh.holders.fetch_add(1, SeqCst);
        sh.state[tid].store(DONE, SeqCst);
        while !sh.shutdown.load(SeqCst) && !sh.late_release.load(SeqCst) {
            if cfg!(miri) {
                std::thread::yield_now();
            } else {
                std::thread::sleep(Duration::from_micros(50));
            }
        }
        sh.state[tid].store(RUNNING, SeqCst);
        tx.drop_tx(false);
        sh.state[tid].store(DONE, SeqCst);
        sh.holders.fetch_sub(1, SeqCst);
    }
}

fn stream_thread(mut rx: RxH, mode: StreamMode, sh: &Shared, tid: usize, cfg: &FutCfg, n: u64) {
    if mode == StreamMode::DirectRecv {
        sh.state[tid].store(BLOCKING_DIRECT, SeqCst);
        loop {
            match rx.recv_kind(RecvKind::Recv) {
                RecvOut::Val(_) => {
                    sh.progress_ops.fetch_add(1, SeqCst);
                }
                _ => break,
            }
        }
        sh.state[tid].store(RUNNING, SeqCst);
        rx.drop_rx();
        sh.receivers_alive.fetch_sub(1, SeqCst);
        sh.state[tid].store(DONE, SeqCst);
        return;
    }
    let mut got = 0u32;
    let quota = match mode {
        StreamMode::PollDrop(k) | StreamMode::DirectDrop(k) | StreamMode::PollPause(k) | StreamMode::DirectPause(k) => Some(k),
        _ => None,
    };
    let direct = matches!(mode, StreamMode::Direct | StreamMode::DirectDrop(_) | StreamMode::DirectPause(_));
    let mut add_after = match mode {
        StreamMode::PollAdd(k) => Some(k),
        _ => None,
    };
    let mut idle = 0u64;
    'outer: loop {
        if let Some(q) = quota {
            if got >= q {
                break;
            }
        }
        if direct {
            // plain thread using the direct method; never a task, never parked
            let sinks_before = sh.sinks_active.load(SeqCst);
            // only tasks count: two direct drainers must not keep each other alive
            let others_idle = (0..MAXT).all(|t| {
                t == tid || !sh.is_task[t].load(SeqCst) || sh.state[t].load(SeqCst) != RUNNING
            });
            match rx.recv_kind(RecvKind::TryRecv) {
                RecvOut::Val(_) => {
                    got += 1;
                    idle = 0;
                    sh.progress_ops.fetch_add(1, SeqCst);
                }
                RecvOut::Empty => {
                    // leave once nobody else is running (they are parked or done): nothing more will come
                    if others_idle || sinks_before == 0 {
                        idle += 1;
                        if idle > 3 {
                            break;
                        }
                    }
                    std::thread::yield_now();
                }
                _ => break,
            }
            if sh.shutdown.load(SeqCst) {
                break;
            }
            continue;
        }
        let before = rx.note.count.load(SeqCst);
        match rx.recv_kind(RecvKind::Poll) {
            RecvOut::Val(_) => {
                got += 1;
                sh.progress_ops.fetch_add(1, SeqCst);
                if let Some(k) = add_after {
                    if got >= k {
                        add_after = None;
                        if let Some(mut child) = rx.add_stream(false) {
                            // same task: the supervisor keeps watching the same notification counter
                            child.note = rx.note.clone();
                            child.nh = rx.nh.clone();
                            let parent = std::mem::replace(&mut rx, child);
                            parent.drop_rx();
                        }
                    }
                }
            }
            RecvOut::NotReady => loop {
                match park(sh, tid, &rx.note.clone(), before) {
                    ParkExit::Notified => break,
                    ParkExit::Shutdown => break 'outer,
                    ParkExit::Probe => match { hist::mark(rx.h, rx.stream, hist::Op::Probe); rx.recv_kind(RecvKind::Poll) } {
                        RecvOut::NotReady => {
                            probe_answer(sh, tid, false, "NotReady", "stream", cfg, n);
                            continue;
                        }
                        RecvOut::Val(_) => {
                            probe_answer(sh, tid, true, "Ready(Some)", "stream", cfg, n);
                            sh.state[tid].store(RUNNING, SeqCst);
                            got += 1;
                            continue 'outer;
                        }
                        _ => {
                            probe_answer(sh, tid, true, "Ready(None)", "stream", cfg, n);
                            sh.state[tid].store(RUNNING, SeqCst);
                            break 'outer;
                        }
                    },
                }
            },
            _ => break,
        }
    }
    if matches!(mode, StreamMode::Direct | StreamMode::PollPause(_) | StreamMode::DirectPause(_)) {
        // a direct drainer keeps its receiver (dropping it would notify the sinks and hide a
        // missing notification of the direct receive methods) until the scenario is over
        sh.state[tid].store(DONE, SeqCst);
        while !sh.shutdown.load(SeqCst) {
            if cfg!(miri) {
                std::thread::yield_now();
            } else {
                std::thread::sleep(Duration::from_micros(50));
            }
        }
        rx.drop_rx();
        sh.receivers_alive.fetch_sub(1, SeqCst);
        return;
    }
    sh.state[tid].store(RUNNING, SeqCst);
    if quota.is_some() && sh.leavers_total > 1 {
        // leave together with the other leaving consumers (bounded wait: they may never get there)
        sh.leavers_ready.fetch_add(1, SeqCst);
        let t0 = Instant::now();
        while sh.leavers_ready.load(SeqCst) < sh.leavers_total && !sh.shutdown.load(SeqCst) {
            std::hint::spin_loop();
            if cfg!(miri) {
                std::thread::yield_now();
            }
            if t0.elapsed() > Duration::from_millis(3) {
                break;
            }
        }
    }
    // leave through the explicit unsubscribe() as often as through Drop
    if (tid + got as usize) % 2 == 0 {
        rx.unsubscribe();
    } else {
        rx.drop_rx();
    }
    sh.receivers_alive.fetch_sub(1, SeqCst);
    sh.state[tid].store(DONE, SeqCst);
}

pub fn run_once(cfg: &FutCfg, shard: &mut Shard) -> (u64, bool, bool) {
    payload::reset_ledger();
    // Under Miri a move-out queue runs with a pointer-free payload: the speculative bitwise read
    // that try_recv discards when it loses the position race would otherwise be reported as a
    // dangling Box although it is never used (C04 only speaks about values that are returned).
    payload::set_pod_mode(cfg!(miri) && cfg.fl == Flavour::Mpmc);
    api::reset_ids();
    hist::clock_reset();
    let mut rng = Rng::new(cfg.seed);
    let n = capacity_for(cfg.cap);
    hooks::thread_begin(0, crate::conc::ROLE_MAIN, cfg.seed, Policy::None, &[]);
    let (tx0, rx0) = api::create(cfg.fl, true, cfg.cap, WaitKind::Busy, cfg.spins);
    let first_stream = rx0.stream;
    let first_tx = tx0.h;
    let mut rx_handles: Vec<(StreamMode, RxH)> = Vec::new();
    {
        let ns = cfg.streams.len();
        let mut heads: Vec<RxH> = Vec::new();
        for _ in 1..ns {
            heads.push(rx0.add_stream(false).expect("add_stream"));
        }
        heads.insert(0, rx0);
        for (si, mut head) in heads.into_iter().enumerate() {
            let cs = &cfg.streams[si];
            let mut hs = Vec::new();
            if cfg.roundtrip[si] {
                // conversion round trip before anybody else holds a handle of this stream
                if let Some(true) = head.into_single() {
                    if rng.chance(1, 2) {
                        head.transform();
                    }
                    head.into_multi();
                }
            }
            for _ in 1..cs.len() {
                hs.push(head.clone_rx().expect("clone"));
            }
            if cs.len() == 1 && cs[0].1 {
                head.into_single();
            }
            hs.insert(0, head);
            for (ci, h) in hs.into_iter().enumerate() {
                rx_handles.push((cs[ci].0, h));
            }
        }
    }
    let mut txs = vec![tx0];
    for _ in 1..cfg.sinks.len() {
        let c = txs[0].clone_tx();
        txs.push(c);
    }
    let shared = Arc::new(Shared {
        go: AtomicBool::new(false),
        shutdown: AtomicBool::new(false),
        state: (0..MAXT).map(|_| AtomicU32::new(DONE)).collect(),
        seen: (0..MAXT).map(|_| AtomicU32::new(0)).collect(),
        note_now: (0..MAXT).map(|_| AtomicU32::new(0)).collect(),
        probe: (0..MAXT).map(|_| AtomicU32::new(0)).collect(),
        sinks_active: AtomicU32::new(cfg.sinks.len() as u32),
        late_release: AtomicBool::new(false),
        holders: AtomicU32::new(0),
        threads_done: AtomicU32::new(0),
        progress_ops: AtomicU64::new(0),
        is_task: (0..MAXT).map(|_| AtomicBool::new(false)).collect(),
        pending: std::sync::Mutex::new(Vec::new()),
        settle: AtomicBool::new(false),
        polls: AtomicU64::new(0),
        leavers_ready: AtomicU32::new(0),
        leavers_total: if cfg.sync_drop {
            cfg.streams.iter().map(|s| s.iter().filter(|c| matches!(c.0, StreamMode::PollDrop(_) | StreamMode::DirectDrop(_))).count() as u32).sum()
        } else {
            0
        },
        receivers_alive: AtomicU32::new(cfg.streams.iter().map(|s| s.len() as u32).sum()),
    });
    let mut joins = Vec::new();
    let mut tid = 1usize;
    let cfg_arc = Arc::new(cfg.clone());
    // the supervisor reads every task's notification counter directly (index = thread id)
    let mut notes: Vec<Option<Arc<api::TaskNote>>> = (0..MAXT).map(|_| None).collect();
    for (pi, tx) in txs.drain(..).enumerate() {
        let sh = shared.clone();
        let c = cfg_arc.clone();
        let seed = rng.next();
        let (values, drop_end) = cfg.sinks[pi];
        let my = tid;
        notes[my] = Some(tx.note.clone());
        shared.state[my].store(RUNNING, SeqCst);
        shared.is_task[my].store(!cfg.direct_sinks.get(pi).copied().unwrap_or(false), SeqCst);
        joins.push(
            std::thread::Builder::new()
                .name(format!("fut-sink{}", my))
                .spawn(move || {
                    hooks::thread_begin(my as u32, crate::conc::ROLE_PRODUCER, seed, c.policy, &c.plan);
                    while !sh.go.load(SeqCst) {
                        std::thread::yield_now();
                    }
                    sink_thread(tx, values, drop_end, pi as u32, &sh, my, &c, n);
                    let log = hist::take();
                    hooks::thread_end();
                    sh.threads_done.fetch_add(1, SeqCst);
                    log
                })
                .expect("spawn"),
        );
        tid += 1;
    }
    for (mode, rx) in rx_handles.drain(..) {
        let sh = shared.clone();
        let c = cfg_arc.clone();
        let seed = rng.next();
        let my = tid;
        notes[my] = Some(rx.note.clone());
        shared.state[my].store(RUNNING, SeqCst);
        shared.is_task[my].store(!matches!(mode, StreamMode::Direct | StreamMode::DirectDrop(_) | StreamMode::DirectPause(_) | StreamMode::DirectRecv), SeqCst);
        joins.push(
            std::thread::Builder::new()
                .name(format!("fut-stream{}", my))
                .spawn(move || {
                    hooks::thread_begin(my as u32, crate::conc::ROLE_CONSUMER, seed, c.policy, &c.plan);
                    while !sh.go.load(SeqCst) {
                        std::thread::yield_now();
                    }
                    stream_thread(rx, mode, &sh, my, &c, n);
                    let log = hist::take();
                    hooks::thread_end();
                    sh.threads_done.fetch_add(1, SeqCst);
                    log
                })
                .expect("spawn"),
        );
        tid += 1;
    }
    let nthreads = joins.len();
    api::STEP_LIMIT.store(200_000, SeqCst);
    shared.go.store(true, SeqCst);

    // ---- executor supervision: detect global quiescence, probe parked tasks
    let t0 = Instant::now();
    let mut parked_probed = 0u64;
    let mut storm_progress = u64::MAX;
    let mut storm_polls = 0u64;
    let mut inconclusive: Option<String> = None;
    let mut rounds = 0u64;
    loop {
        if !cfg!(miri) && t0.elapsed() > Duration::from_secs(20) {
            inconclusive = Some("scenario did not reach quiescence within the watchdog".into());
            break;
        }
        rounds += 1;
        if cfg!(miri) || rounds % 4 != 0 {
            std::thread::yield_now();
        } else {
            std::thread::sleep(Duration::from_micros(100));
        }
        // (state, count the parked task waits to see change, the counter itself read directly)
        let snap = |sh: &Shared| -> Vec<(u32, u32, u32, u64, u32)> {
            (1..=nthreads)
                .map(|t| {
                    let st = sh.state[t].load(SeqCst);
                    let seen = sh.seen[t].load(SeqCst);
                    let now = notes[t].as_ref().map(|n| n.count.load(SeqCst)).unwrap_or(0);
                    // a thread inside the direct blocking recv(): idle iff it sits in its wait (last hook
                    // site passed = just before the wait) and passes no further site
                    let (sites, last) = if st == BLOCKING_DIRECT {
                        (hooks::T_SITES[t].load(SeqCst), hooks::T_LAST[t].load(SeqCst))
                    } else {
                        (0, 0)
                    };
                    (st, seen, now, sites, last)
                })
                .collect()
        };
        // wake-up storm: tasks are re-polled over and over while nothing makes progress
        {
            let p = shared.progress_ops.load(SeqCst);
            let q = shared.polls.load(SeqCst);
            if p != storm_progress {
                storm_progress = p;
                storm_polls = q;
            } else if q > storm_polls + 50_000 && !shared.settle.load(SeqCst) {
                shared.settle.store(true, SeqCst);
                shard.stat("wakeup_storms_settled", 1);
            }
        }
        let settled = shared.settle.load(SeqCst);
        let s1 = snap(&shared);
        if s1.iter().any(|x| x.0 == RUNNING) {
            continue;
        }
        if s1.iter().all(|x| x.0 == DONE) {
            break;
        }
        if s1.iter().any(|x| x.0 == BLOCKING_DIRECT && x.4 != site::B_BEFORE_WAIT) {
            continue;
        }
        if !s1.iter().any(|x| x.0 == PARKED) {
            // only finished threads and direct-recv threads waiting for values nobody will send
            if s1.iter().all(|x| x.0 == DONE || x.0 == BLOCKING_DIRECT) {
                let p1 = shared.progress_ops.load(SeqCst);
                std::thread::yield_now();
                if !cfg!(miri) {
                    std::thread::sleep(Duration::from_micros(300));
                }
                if snap(&shared) == s1 && shared.progress_ops.load(SeqCst) == p1 {
                    break;
                }
            }
            continue;
        }
        // nobody is running; parked tasks must have no pending notification (unless a storm was settled:
        // then notified tasks simply stay parked and are not probed)
        if !settled && s1.iter().any(|x| x.0 == PARKED && x.1 != x.2) {
            continue;
        }
        let p1 = shared.progress_ops.load(SeqCst);
        for _ in 0..20 {
            std::thread::yield_now();
        }
        if !cfg!(miri) {
            std::thread::sleep(Duration::from_micros(300));
        }
        let s2 = snap(&shared);
        if s1 != s2 || shared.progress_ops.load(SeqCst) != p1 {
            continue;
        }
        // ---- global quiescence: probe each parked task in turn
        let mut progressed = false;
        for t in 1..=nthreads {
            if shared.state[t].load(SeqCst) != PARKED {
                continue;
            }
            if settled && s2[t - 1].1 != s2[t - 1].2 {
                // it has been notified: not a candidate for "parked and never told"
                continue;
            }
            shared.probe[t].store(1, SeqCst);
            let tp = Instant::now();
            loop {
                let a = shared.probe[t].load(SeqCst);
                if a >= 2 {
                    parked_probed += 1;
                    if a == 3 {
                        progressed = true;
                    }
                    shared.probe[t].store(0, SeqCst);
                    break;
                }
                if shared.state[t].load(SeqCst) != PARKED {
                    // it was notified just now after all: not quiescent
                    shared.probe[t].store(0, SeqCst);
                    break;
                }
                if !cfg!(miri) && tp.elapsed() > Duration::from_secs(10) {
                    inconclusive = Some("a parked task did not answer the probe".into());
                    break;
                }
                std::thread::yield_now();
            }
            if progressed || inconclusive.is_some() {
                break;
            }
        }
        if inconclusive.is_some() {
            break;
        }
        {
            // A verdict only stands if no direct-recv thread moved since the quiescent snapshot (it
            // could have consumed a value and be about to notify): compare their site counters.
            let now = snap(&shared);
            let moved = s2
                .iter()
                .zip(now.iter())
                .any(|(a, b)| a.0 == BLOCKING_DIRECT && (b.0 != BLOCKING_DIRECT || a.3 != b.3));
            let pend: Vec<_> = shared.pending.lock().unwrap().drain(..).collect();
            if moved {
                shard.stat("probe_verdicts_discarded_because_a_direct_recv_thread_moved", pend.len() as u64);
            } else {
                for (prop, sig, detail) in pend {
                    violation(prop, "parked-unnotified", sig, detail);
                }
            }
        }
        if !progressed && !shared.late_release.load(SeqCst) && shared.sinks_active.load(SeqCst) == 0 && shared.holders.load(SeqCst) > 0 && cfg.seed % 2 == 0 {
            // The scenario has come to rest with every sink finished and some of them still holding
            // their sender: those senders are dropped now. Everybody who is parked must be told
            // (streams: the end; C07), so the loop goes on until the next quiescence.
            shared.late_release.store(true, SeqCst);
            let t1 = Instant::now();
            while shared.holders.load(SeqCst) > 0 && (cfg!(miri) || t1.elapsed() < Duration::from_secs(5)) {
                std::thread::yield_now();
            }
            shard.stat("scenarios_with_senders_dropped_after_quiescence", 1);
            continue;
        }
        if !progressed {
            // every parked task answered NotReady. That is the end of the scenario - unless no receiver
            // handle exists any more: then a parked sink must have been told (its send resolves to an
            // error), whatever the queue itself believes about its streams.
            if shared.receivers_alive.load(SeqCst) == 0 {
                for t in 1..=nthreads {
                    if shared.state[t].load(SeqCst) == PARKED && t <= cfg.sinks.len() {
                        violation(
                            "C14,C13",
                            "parked-with-no-receivers",
                            "parked-with-no-receivers:sink".to_string(),
                            format!(
                                "every receiver handle has been dropped, yet sink task T{} is still parked and a probe poll says NotReady: its send stays pending forever ({})",
                                t,
                                cfg.describe()
                            ),
                        );
                    }
                }
            }
            break;
        }
        // a violation was recorded; let the scenario continue (the probed task moves on)
        if payload::violations_pending() as usize > 8 + 6 * nthreads {
            break;
        }
    }
    shared.shutdown.store(true, SeqCst);
    if !cfg!(miri) {
        let t1 = Instant::now();
        while (shared.threads_done.load(SeqCst) as usize) < nthreads {
            std::thread::sleep(Duration::from_micros(200));
            if t1.elapsed() > Duration::from_secs(20) {
                shard.inconclusive.push(format!("threads did not finish after shutdown: {}", cfg.describe()));
                hooks::thread_end();
                return (0, false, true);
            }
        }
    }
    let mut logs = Vec::new();
    for j in joins {
        if let Ok(l) = j.join() {
            logs.push(l);
        }
    }
    logs.push(hist::take());
    let h = hist::merge(logs);
    hooks::thread_end();
    if let Some(m) = inconclusive {
        shard.inconclusive.push(format!("{}: {}", m, cfg.describe()));
    }
    // ---- the history rules apply to futures handles as well (C15)
    let c = CheckCtx {
        h: &h,
        n,
        first_stream,
        first_tx,
        probe_from: u64::MAX,
        probe_drained: Vec::new(),
        also: ",C15",
    };
    let mut ix = checkers::build_index(&c);
    let _ = checkers::check_c10(&c, &mut ix);
    checkers::check_c01(&c, &ix);
    checkers::check_c02(&c, &ix);
    checkers::check_c03(&c, &ix);
    checkers::check_c07(&c, &ix);
    let alive = payload::alive_serials();
    if !alive.is_empty() {
        violation(
            "C05",
            "never-dropped",
            "never-dropped:after-teardown".to_string(),
            format!("{} payload instance(s) alive after every handle was dropped", alive.len()),
        );
    }
    let mut sig = Hasher64::new();
    sig.add(cfg.shape());
    let mut parks = 0u64;
    for e in &h {
        sig.add(e.thread as u64);
        sig.add(e.res.code());
        if e.res == hist::Res::NotReady {
            parks += 1;
        }
    }
    shard.stat("parked_polls(NotReady)", parks);
    shard.stat("parked_tasks_probed_at_quiescence", parked_probed);
    shard.stat("stalls_fired", hooks::STALLS_FIRED.swap(0, SeqCst));
    shard.stat("events", h.len() as u64);
    let nontrivial = parks > 0;
    if shard.samples.len() < 2 && nontrivial {
        shard.samples.push(J::obj().set("cfg", J::s(cfg.describe())).set("history", hist::dump(&h, 60)));
    }
    let vs = payload::take_violations();
    if !vs.is_empty() {
        let replay = J::obj()
            .set("engine", J::s("fut"))
            .set("cfg", J::s(cfg.describe()))
            .set("run_seed", J::UInt(cfg.seed))
            .set("history", hist::dump(&h, 600));
        shard.add_violations(vs, &replay);
    }
    (sig.get(), nontrivial, false)
}

pub fn run_many(seed: u64, runs: u64, budget_ms: u64, small: bool, shard: &mut Shard) {
    let t0 = Instant::now();
    let mut rng = Rng::new(seed);
    let mut i = 0;
    while i < runs {
        if budget_ms != 0 && t0.elapsed().as_millis() as u64 > budget_ms {
            break;
        }
        if i % 16 == 3 && !cfg!(miri) {
            let (sig, nontrivial) = same_task_scenario(&mut rng, shard);
            shard.evaluations += 1;
            shard.distinct.insert(sig);
            if nontrivial {
                shard.nontrivial.insert(sig);
            }
            i += 1;
            continue;
        }
        if i % 8 == 7 {
            let (sig, nontrivial) = direct_recv_scenario(&mut rng, shard);
            if shard.stats.contains_key("direct_recv_threads_abandoned") {
                // a thread of this process is stuck inside the queue: stop here, the result is written
                break;
            }
            shard.evaluations += 1;
            shard.distinct.insert(sig);
            if nontrivial {
                shard.nontrivial.insert(sig);
            }
            i += 1;
            if shard.violations.len() >= 12 {
                break;
            }
            continue;
        }
        let cfg = gen_cfg(&mut rng, small);
        let (sig, nontrivial, stuck) = run_once(&cfg, shard);
        if stuck {
            break;
        }
        shard.evaluations += 1;
        shard.distinct.insert(sig);
        if nontrivial {
            shard.nontrivial.insert(sig);
        }
        if shard.violations.len() >= 12 {
            break;
        }
        i += 1;
    }
}

/// C15: the direct blocking recv() of a futures receiver behaves like the plain one (returns
/// the value once it arrives) and never panics, also when it really has to wait.
pub fn direct_recv_scenario(rng: &mut Rng, shard: &mut Shard) -> (u64, bool) {
    payload::reset_ledger();
    api::reset_ids();
    hist::clock_reset();
    let fl = if rng.chance(1, 2) { Flavour::Broadcast } else { Flavour::Mpmc };
    let cap = *rng.pick(&[0u64, 1, 2, 4]);
    let uni = rng.chance(1, 2);
    let k = 1 + rng.below(3) as u32;
    let spins = if fl == Flavour::Broadcast && rng.chance(1, 2) { Some((0, 0)) } else { None };
    let seed = rng.next();
    hooks::thread_begin(0, crate::conc::ROLE_MAIN, seed, Policy::None, &[]);
    let (tx, mut rx) = api::create(fl, true, cap, WaitKind::Busy, spins);
    if uni {
        rx.into_single();
    }
    let kind_name = rx.kind_name();
    let done = Arc::new(AtomicU32::new(0));
    let d2 = done.clone();
    let j = std::thread::Builder::new()
        .name("fut-direct-recv".into())
        .spawn(move || {
            hooks::thread_begin(1, crate::conc::ROLE_CONSUMER, seed, Policy::Yield, &[]);
            let mut outs = Vec::new();
            for _ in 0..k {
                let o = rx.recv_kind(RecvKind::Recv);
                outs.push(o);
                if !matches!(o, RecvOut::Val(_)) {
                    break;
                }
            }
            d2.store(1, SeqCst);
            rx.drop_rx();
            let log = hist::take();
            hooks::thread_end();
            (outs, log)
        })
        .expect("spawn");
    let mut waited = 0u32;
    for i in 0..k {
        // let the consumer really enter its wait before the value exists
        let before = hooks::B_WAITS.load(SeqCst);
        let t0 = Instant::now();
        while hooks::B_WAITS.load(SeqCst) == before && done.load(SeqCst) == 0 {
            std::thread::yield_now();
            if !cfg!(miri) && t0.elapsed() > Duration::from_millis(300) {
                break;
            }
        }
        if hooks::B_WAITS.load(SeqCst) != before {
            waited += 1;
        }
        if done.load(SeqCst) != 0 {
            break;
        }
        tx.try_send(0x700 + i as u64);
    }
    // watchdog join
    let t0 = Instant::now();
    while done.load(SeqCst) == 0 {
        std::thread::yield_now();
        if !cfg!(miri) && t0.elapsed() > Duration::from_secs(10) {
            // rescue: drop the sender so the consumer returns
            break;
        }
    }
    let stuck = done.load(SeqCst) == 0;
    tx.drop_tx(false);
    if stuck {
        // with every sender gone the call must return at the latest now
        let t1 = Instant::now();
        while done.load(SeqCst) == 0 && t1.elapsed() < Duration::from_secs(3) {
            std::thread::yield_now();
        }
    }
    if done.load(SeqCst) == 0 {
        // cannot join: report and let the caller end this shard
        violation(
            "C15,C08",
            "direct-recv",
            format!("direct-recv:never-returned:{}", kind_name),
            format!(
                "{}::recv() returned neither when the value it waited for was sent nor when the last sender was dropped (spins {:?})",
                kind_name, spins
            ),
        );
        hooks::thread_end();
        let vs = payload::take_violations();
        let replay = J::obj()
            .set("engine", J::s("fut"))
            .set("scenario", J::s(format!("direct-recv {} cap={} uni={} k={} spins={:?}", fl.name(), cap, uni, k, spins)));
        shard.add_violations(vs, &replay);
        shard.stat("direct_recv_threads_abandoned", 1);
        return (0, false);
    }
    let (outs, log) = j.join().unwrap_or((Vec::new(), Vec::new()));
    let h = hist::merge(vec![log, hist::take()]);
    hooks::thread_end();
    if stuck {
        violation(
            "C15,C08",
            "direct-recv",
            format!("direct-recv:never-returned:{}", kind_name),
            format!("{}::recv() did not return although the value it waits for had been sent", kind_name),
        );
    }
    for (i, o) in outs.iter().enumerate() {
        match o {
            RecvOut::Val(s) if s.id == 0x700 + i as u64 => {}
            RecvOut::Panic => {} // recorded by the API wrapper
            other => violation(
                "C15",
                "direct-recv",
                format!("direct-recv:wrong-result:{}", kind_name),
                format!("{}::recv() #{} returned {:?}, expected value {:#x}", kind_name, i, other, 0x700 + i),
            ),
        }
    }
    shard.stat("direct_recv_scenarios", 1);
    shard.stat("direct_recv_calls_that_had_to_wait", waited as u64);
    let vs = payload::take_violations();
    if !vs.is_empty() {
        let replay = J::obj()
            .set("engine", J::s("fut"))
            .set("scenario", J::s(format!("direct-recv {} cap={} uni={} k={} spins={:?}", fl.name(), cap, uni, k, spins)))
            .set("history", hist::dump(&h, 100));
        shard.add_violations(vs, &replay);
    }
    let mut sig = Hasher64::new();
    sig.add_str(&format!("direct-recv{:?}{}{}{}{:?}{}", fl, cap, uni, k, spins, waited));
    (sig.get(), waited > 0)
}

/// C13 / C14: ONE task drives both ends - it owns a sink and the last receiver handle(s). The
/// send is refused (the task is registered on the senders' park list and will return NotReady),
/// then, still inside the same poll, the task lets the last receivers go. The registration must be
/// answered with a notification like anybody else's (the executor polls a task again only when it
/// was notified), and the next poll must resolve the send to an error.
pub fn same_task_scenario(rng: &mut Rng, shard: &mut Shard) -> (u64, bool) {
    use futures::{Async, AsyncSink, Future, Poll, Sink};
    use multiqueue2 as mq;
    let bro = rng.chance(1, 2);
    let zero_spins = bro && rng.chance(1, 2);
    let two = rng.chance(1, 2);
    let by_unsub = rng.chance(1, 2);
    let uni = rng.chance(1, 3);
    let cap = *rng.pick(&[1u64, 2, 4]);
    let descr = format!(
        "same-task {} cap={} zero_spins={} receiver handles={} leave={} single-consumer={}",
        if bro { "broadcast" } else { "mpmc" },
        cap,
        zero_spins,
        if two { 2 } else { 1 },
        if by_unsub { "unsubscribe" } else { "drop" },
        uni
    );
    struct Both<S, F: FnMut()> {
        tx: S,
        leave: Option<F>,
        next: u64,
        refused: u32,
    }
    impl<S: Sink<SinkItem = u64>, F: FnMut()> Future for Both<S, F> {
        type Item = bool; // true = the send resolved to an error
        type Error = ();
        fn poll(&mut self) -> Poll<bool, ()> {
            loop {
                match self.tx.start_send(self.next) {
                    Ok(AsyncSink::Ready) => {
                        self.next += 1;
                        if self.next > 64 {
                            return Ok(Async::Ready(false));
                        }
                    }
                    Ok(AsyncSink::NotReady(_)) => {
                        self.refused += 1;
                        if let Some(mut f) = self.leave.take() {
                            f();
                        }
                        return Ok(Async::NotReady);
                    }
                    Err(_) => return Ok(Async::Ready(true)),
                }
            }
        }
    }
    hooks::thread_begin(0, crate::conc::ROLE_MAIN, 0, Policy::None, &[]);
    hist::set_enabled(false);
    let (note, nh) = api::new_note();
    // returns (first poll pending?, notified after first poll?, second poll result)
    macro_rules! drive {
        ($tx:expr, $leave:expr) => {{
            let fut = Both { tx: $tx, leave: Some($leave), next: 1, refused: 0 };
            let mut sp = futures::executor::spawn(fut);
            let r1 = sp.poll_future_notify(&nh, 0);
            let pending = matches!(r1, Ok(Async::NotReady));
            let notified = note.count.load(SeqCst) > 0;
            let r2 = if pending { Some(sp.poll_future_notify(&nh, 0)) } else { None };
            let second = match r2 {
                Some(Ok(Async::Ready(true))) => "Err(SendError)",
                Some(Ok(Async::Ready(false))) => "accepted",
                Some(Ok(Async::NotReady)) => "NotReady",
                _ => "-",
            };
            (pending, notified, second)
        }};
    }
    let (pending, notified, second) = if bro {
        let (tx, rx) = if zero_spins { mq::broadcast_fut_queue_with::<u64>(cap, 0, 0) } else { mq::broadcast_fut_queue::<u64>(cap) };
        let other = if two { Some(if rng.chance(1, 2) { rx.add_stream() } else { rx.clone() }) } else { None };
        if uni && !two {
            let u = rx.into_single(|v: &u64| *v).ok().expect("sole handle");
            let mut u = Some(u);
            drive!(tx, move || {
                if let Some(u) = u.take() {
                    if by_unsub {
                        u.unsubscribe();
                    } else {
                        drop(u);
                    }
                }
            })
        } else {
            let mut hs = Some((rx, other));
            drive!(tx, move || {
                if let Some((a, b)) = hs.take() {
                    if by_unsub {
                        a.unsubscribe();
                        if let Some(b) = b {
                            b.unsubscribe();
                        }
                    } else {
                        drop(a);
                        drop(b);
                    }
                }
            })
        }
    } else {
        let (tx, rx) = mq::mpmc_fut_queue::<u64>(cap);
        let other = if two { Some(rx.clone()) } else { None };
        let mut hs = Some((rx, other));
        drive!(tx, move || {
            if let Some((a, b)) = hs.take() {
                if by_unsub {
                    a.unsubscribe();
                    if let Some(b) = b {
                        b.unsubscribe();
                    }
                } else {
                    drop(a);
                    drop(b);
                }
            }
        })
    };
    hist::set_enabled(true);
    if pending && !notified {
        violation(
            "C14,C13",
            "parked-unnotified",
            "parked-unnotified:sink:receivers-gone:same-task".to_string(),
            format!(
                "a task was refused by start_send (it is registered on the senders' park list), let the last receiver handle(s) go inside the same poll and returned NotReady: it was never notified, so no executor polls it again, yet a further poll would return {} ({})",
                second, descr
            ),
        );
    } else if pending && second != "Err(SendError)" {
        violation(
            "C13",
            "no-receiver-send",
            format!("no-receiver-send:same-task:second-poll-{}", second),
            format!("every receiver handle is gone, the task was notified and polled again, but the send returned {} instead of resolving to an error ({})", second, descr),
        );
    }
    hooks::thread_end();
    let vs = payload::take_violations();
    if !vs.is_empty() {
        let replay = J::obj().set("engine", J::s("fut")).set("scenario", J::s(descr.clone()));
        shard.add_violations(vs, &replay);
    }
    shard.stat("same_task_scenarios", 1);
    if pending {
        shard.stat("same_task_scenarios_in_which_the_send_was_refused_first", 1);
    }
    let mut h = Hasher64::new();
    h.add_str(&descr);
    (h.get(), pending)
}
