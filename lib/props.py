"""Per-property workload tables: which engines / families / tools decide each property."""
import os

NCPU = min(16, os.cpu_count() or 4)
SCALE = float(os.environ.get("VERIF_BUDGET_SCALE", "1.0"))


def sseed(seed, i):
    return (seed * 1000003 + i) % (1 << 62)


def shard_jobs(prop, seed, engine_args, shards, budget_s, label, variant="native", base=0, extra=None, **kw):
    jobs = []
    for i in range(shards):
        args = list(engine_args) + ["--seed", str(sseed(seed, base + i)), "--runs", "100000000",
                                    "--budget-ms", str(int(budget_s * 1000 * SCALE))]
        if extra:
            args += extra[i % len(extra)]
        j = dict(variant=variant, args=args, label="%s-%s-%s-%d" % (prop, label, variant, i),
                 timeout=int(budget_s * SCALE) + 200)
        j.update(kw)
        jobs.append(j)
    return jobs


def conc(prop, seed, families, shards, budget_s, label="conc", **kw):
    return shard_jobs(prop, seed, ["conc", "--families", ",".join(families)], shards, budget_s, label, **kw)


def seq_exhaustive(prop, seed, depth, shards, budget_s, extra=None):
    jobs = []
    for i in range(shards):
        args = ["seq", "--mode", "exhaustive", "--depth", str(depth), "--shard", "%d/%d" % (i, shards),
                "--seed", str(sseed(seed, 200 + i)), "--budget-ms", str(int(budget_s * 1000 * SCALE))]
        if extra:
            args += extra
        jobs.append(dict(variant="native", args=args, label="%s-exh-%d" % (prop, i), timeout=int(budget_s * SCALE) + 120))
    return jobs


def miri(prop, seed, label, args, seeds, timeout, tool_props, leaks=False, no_race=False, base=0):
    a = (seed * 64 + base) % 1000000
    return dict(variant="miri", args=list(args) + ["--seed", "auto", "--small"], label="%s-%s-miri" % (prop, label),
                miri_seeds=(a, a + seeds), timeout=int(timeout * SCALE), tool_props=tool_props, leaks=leaks,
                no_race_detector=no_race)


T = dict(quick=dict(s=15, n=12, miri_seeds=8, miri_timeout=600),
         thorough=dict(s=240, n=14, miri_seeds=32, miri_timeout=3000))

COMMON = [
    "only sequentially consistent schedules are judged (native x86-TSO runs; Miri with weak-memory emulation off)",
    "schedules are sampled, not enumerated: real threads with seeded delay/stall injection at the crate's hook points, plus Miri's randomised scheduler",
    "hook-reported positions are the crate's own claim/commit values and are cross-checked against the boundary history",
]
SEQ_ASSUME = ["the reference model of DESIGN.md 4.3 is the specification", "single thread: no scheduling involved"]


def P(level="exploration", q=50, t=500, workloads="", assumptions=None, **kw):
    d = dict(level=level, min_nontrivial=dict(quick=q, thorough=t), workloads=workloads,
             assumptions=assumptions if assumptions is not None else COMMON)
    d.update(kw)
    return d


PROPS = {
    "C01": P(workloads="mq-conc steady, view, quiesce, teardown-orders, handle-churn, last-sender, add-stream-sole (plain and futures handles, every receive entry point); Miri slice"),
    "C02": P(workloads="mq-conc steady, view, quiesce, last-sender, add-stream-sole, handle-churn with multi-producer stalls (claimed-unpublished slots); Miri slice"),
    "C03": P(workloads="mq-conc steady, view, remove-stream, wrap-slow-clone, add-stream-sole, no-receiver (every receiver leaving at once while producers keep sending) with slow consumers and stalls in the writer's scan; quiescent fill counts; Miri slice"),
    "C04": P(workloads="mq-conc wrap-slow-clone, view, steady and handle-churn (clones used by a helper thread and dropped while the original keeps receiving) with stalls inside clone / view closure; AddressSanitizer shards; Miri with the data-race detector (broadcast, mpmc single consumer); mq-tight shared-stream and plain-payload (payload type without drop glue, slow hand-written Clone)"),
    "C05": P(q=100, workloads="mq-seq with every teardown permutation, mq-conc teardown-orders / no-receiver / steady, AddressSanitizer shards, Miri with leak checking; one shard exercises the open finding (two streams on a move-out queue)"),
    "C06": P(workloads="quiescent probe after every mq-conc family; dedicated quiesce family; mq-tight handle-count (handle counts after concurrent clone/drop storms, read back through Full/Empty/Disconnected at quiescence)"),
    "C07": P(workloads="mq-conc last-sender (drops racing receives on shared and separate streams, blocking and non-blocking entry points); mq-wake end phase (consumers blocked when all senders are dropped at the same instant); mq-fut (stream tasks parked when the last sender is dropped, including crowds of 9-12 parked tasks)"),
    "C08": P(q=50, workloads="mq-wake: consumers blocked in recv / recv_view / blocking iterators under Busy / Yielding / Blocking strategies with default and zero spins; Miri slice (deadlock detector)"),
    "C09": P(q=200, t=2000, assumptions=SEQ_ASSUME, workloads="mq-seq random sequences of 300 calls over all eight handle families + exhaustive enumeration of a 14-command alphabet; Miri slice for UB on sequential paths"),
    "C10": P(workloads="mq-conc add-stream-sole and add-stream-shared (one or two adders, rendezvous stalls between snapshot / publication and the writers' scan), mq-fut scenarios in which a polled receiver adds a stream and drops the parent"),
    "C11": P(workloads="mq-conc remove-stream (producers refused against a slow stream that is then removed, optionally racing an add_stream on another stream), no-receiver with simultaneous unsubscribes, mq-seq unsubscribe results, mq-fut scenarios in which a receiver leaves while a sink is parked, mq-tight last-receiver and handle-count (which unsubscribe() says last after concurrent clone/drop)"),
    "C12": P(workloads="mq-conc handle-churn: senders 1->2->1, consumers of a stream 1->2->1 via clone/drop/unsubscribe/into_single/into_multi during traffic; mq-tight handle-count (two threads clone/drop handles of one stream / one queue at the same time); mq-wake scenarios with a sender clone dropped mid-run and consumers of a shared stream leaving"),
    "C13": P(q=50, workloads="mq-seq (every order of dropping receivers, all sender flavours), mq-conc no-receiver (last receiver leaves while producers send), mq-fut (sink parked while the last receiver is dropped), mq-tight last-receiver (the last receiver leaves while another thread runs reclamation cycles; ~50k trials/s)"),
    "C14": P(q=50, workloads="mq-fut: sink and stream tasks polled only when notified, receivers draining through poll / direct methods / being dropped, probe-poll at quiescence"),
    "C15": P(q=100, assumptions=COMMON + SEQ_ASSUME, workloads="mq-seq futures configurations (start_send/poll mixed with direct methods, fresh empty queues), mq-fut, mq-conc futures variants; own-step bound on poll/start_send"),
    "C16": P(q=20, t=200, workloads="mq-churn stress under AddressSanitizer (sharded) and Miri; natively for volume",
             assumptions=["AddressSanitizer detects stale accesses only while the freed block is in its quarantine; Miri has no such limit but sees fewer interleavings",
                          "a run counts only if deferred frees were really executed while writers were scanning the stream list"]),
    "C17": P(q=50, workloads="mq-churn teardown (exact live-byte accounting over scripted lives), growth (10^2..10^5 cycles), concurrent plateau measurements; LeakSanitizer; Miri leak check",
             assumptions=["counting GlobalAlloc in the harness; a warm-up life with the same script precedes every measured one so lazily created process globals are excluded"]),
    "C18": P(level="fault_enumeration", q=100, t=1000, workloads="mq-solo: all other threads frozen at hook sites, one try operation runs alone",
             assumptions=["own steps are counted in hook sites passed; a spin that passes no hook site is caught by the thread's own CPU time (2 s, a correct try operation needs microseconds)",
                          "freeze points are the crate's hook sites (between shared-memory operations), not every instruction"]),
    "C19": P(level="other", q=2, t=2, workloads="mq-sendsync probe table",
             explanation="C19 is a property of the type checker's answers. The check runs a probe that reads, for every public handle type instantiated with payload and closure classes (Send+Sync, Send-only, Sync-only, neither; fn pointer, boxed Send closure, boxed non-Send closure), whether the compiler considers it Send / Sync, and compares the table with the one the property prescribes. The positive direction is also exercised by the harness itself, which moves all twelve handle types between threads and would not build otherwise.",
             assumptions=["autoref-free inherent-vs-trait method resolution reflects the trait solver's answer for concrete types",
                          "instantiations the handle types' own bounds forbid cannot exist and are listed, not probed"]),
}

MIRI_UB = {"*": None}


def jobs_for(prop, tier, seed):
    t = T[tier]
    n, s = t["n"], t["s"]
    ms, mt = t["miri_seeds"], t["miri_timeout"]
    J = []
    if prop == "C01":
        J += conc(prop, seed, ["steady", "view", "quiesce", "teardown-orders", "handle-churn", "last-sender", "add-stream-sole"], n - 1, s)
        J += conc(prop, seed, ["steady", "handle-churn"], 1, s, label="long", base=80, extra=[["--long"]])
        J.append(miri(prop, seed, "steady", ["conc", "--families", "steady,view", "--runs", "2", "--fl", "broadcast"], ms, mt, {"*": "C01,C04,C16"}))
    elif prop == "C02":
        J += conc(prop, seed, ["steady", "view", "quiesce", "last-sender", "add-stream-sole", "handle-churn"], n, s,
                  extra=[["--policy", "stall"], [], ["--policy", "yield"]])
        J.append(miri(prop, seed, "steady", ["conc", "--families", "steady", "--runs", "2"], ms // 2, mt, {"*": "C02,C04,C16"}, no_race=True, base=7))
        # the orderings that make "position p holds value p" true on weakly ordered hardware are invisible
        # natively on x86: here Miri's race detector stands in (broadcast only, see DESIGN.md 9.1)
        J.append(miri(prop, seed, "steady-races", ["conc", "--families", "steady,view", "--runs", "2", "--fl", "broadcast"], ms // 2, mt, {"*": "C02,C04,C16"}, base=9))
    elif prop == "C03":
        J += conc(prop, seed, ["steady", "view", "remove-stream", "wrap-slow-clone", "add-stream-sole", "no-receiver"], n, s)
        J.append(miri(prop, seed, "steady", ["conc", "--families", "steady,wrap-slow-clone", "--runs", "2", "--fl", "broadcast"], ms, mt, {"*": "C03,C04,C16"}, base=11))
    elif prop == "C04":
        J += conc(prop, seed, ["wrap-slow-clone", "view", "wrap-slow-clone", "steady", "handle-churn"], n - 8, s,
                  extra=[[], ["--fl", "broadcast"]])
        # long free-running executions with several consumers hammering one shared stream: windows of a
        # few instructions (no hook site inside) are only reachable through contention / pre-emption
        J += conc(prop, seed, ["wrap-slow-clone", "steady"], 1, s, label="long", base=80, extra=[["--long", "--fl", "broadcast"]])
        J += shard_jobs(prop, seed, ["tight"], 2, s, "tight", base=90)
        J += shard_jobs(prop, seed, ["tight", "--mode", "plain-payload"], 1, s, "plain", base=94)
        J += conc(prop, seed, ["wrap-slow-clone", "view"], 4, s, label="asan", variant="asan", base=50,
                  tool_props={"*": "C04,C16"})
        J.append(miri(prop, seed, "slowclone", ["conc", "--families", "wrap-slow-clone,view", "--runs", "2", "--fl", "broadcast"], ms + 4, mt, {"*": "C04"}, base=13))
    elif prop == "C05":
        J += shard_jobs(prop, seed, ["seq", "--perm-every", "3"], 4, s, "seq")
        J += conc(prop, seed, ["teardown-orders", "no-receiver", "steady", "last-sender", "handle-churn", "wrap-slow-clone", "view"], n - 8, s)
        J += conc(prop, seed, ["teardown-orders", "no-receiver"], 2, s, label="asan", variant="asan", base=50,
                  tool_props={"*": "C05,C04,C16"})
        J += shard_jobs(prop, seed, ["seq", "--p6", "--cfgs", "p6", "--perm-every", "0"], 1, 4, "seq-two-streams-on-mpmc", base=70)
        J += shard_jobs(prop, seed, ["tight"], 2, s, "tight", base=90)
        J.append(miri(prop, seed, "seq", ["seq", "--runs", "2", "--len", "40", "--perm-every", "0"], ms, mt, {"*": "C05,C09", "miri-leak": "C05,C17"}, leaks=True, base=17))
    elif prop == "C06":
        J += conc(prop, seed, ["quiesce", "quiesce", "steady", "remove-stream", "handle-churn", "add-stream-sole",
                               "last-sender", "view", "wrap-slow-clone"], n - 2, s)
        # handle counts read back through behaviour at quiescence (spurious Full / Empty that persists)
        J += shard_jobs(prop, seed, ["tight", "--mode", "handle-count"], 2, s, "handle-count", base=90)
    elif prop == "C07":
        J += conc(prop, seed, ["last-sender"], n - 5, s)
        # "recv gives Err / iterators stop" for consumers that are *blocked* when the last sender goes
        J += shard_jobs(prop, seed, ["wake"], 3, s, "wake", base=60)
        # ... and "a Stream yields None" for stream tasks that are *parked* at that moment (crowds included)
        J += shard_jobs(prop, seed, ["fut", "--crowd"], 2, s, "fut", base=70)
        J.append(miri(prop, seed, "lastsender", ["conc", "--families", "last-sender", "--runs", "2"], ms // 2, mt, {"*": "C07,C04,C16", "miri-deadlock": "C08"}, no_race=True, base=19))
        J.append(miri(prop, seed, "lastsender-races", ["conc", "--families", "last-sender", "--runs", "2", "--fl", "broadcast"], ms // 2, mt, {"*": "C07,C04,C16", "miri-deadlock": "C08"}, base=21))
    elif prop == "C08":
        J += shard_jobs(prop, seed, ["wake"], n, s, "wake")
        J.append(miri(prop, seed, "wake", ["wake", "--runs", "2"], ms, mt, {"*": "C08", "miri-deadlock": "C08"}, no_race=True, base=23))
    elif prop == "C09":
        J += shard_jobs(prop, seed, ["seq"], max(4, n - 6), s, "seq", base=100)
        J += seq_exhaustive(prop, seed, 5 if tier == "quick" else 6, 6 if tier == "quick" else 16, s * (1 if tier == "quick" else 3))
        J.append(miri(prop, seed, "seq", ["seq", "--runs", "3", "--len", "50", "--perm-every", "0"], ms, mt, {"*": "C09"}, base=29))
    elif prop == "C10":
        J += conc(prop, seed, ["add-stream-sole"], n // 2, s)
        J += conc(prop, seed, ["add-stream-shared"], n - n // 2 - 2, s, label="shared", base=40)
        J += shard_jobs(prop, seed, ["fut"], 2, s, "fut", base=60)
    elif prop == "C11":
        J += conc(prop, seed, ["remove-stream", "remove-stream", "no-receiver"], n - 8, s)
        J += shard_jobs(prop, seed, ["seq", "--cfgs", "broadcast"], 2, s, "seq", base=100)
        J += shard_jobs(prop, seed, ["fut"], 4, s, "fut", base=60)
        J += shard_jobs(prop, seed, ["tight", "--mode", "last-receiver"], 1, s, "last-receiver", base=90)
        J += shard_jobs(prop, seed, ["tight", "--mode", "handle-count"], 1, s, "handle-count", base=92)
    elif prop == "C12":
        J += conc(prop, seed, ["handle-churn"], n - 6, s)
        J += shard_jobs(prop, seed, ["tight", "--mode", "handle-count"], 1, s, "handle-count", base=90)
        J += shard_jobs(prop, seed, ["wake"], 1, s, "wake", base=95)
        # long free-running executions: windows that contain no hook site are only reachable through
        # natural pre-emption on the (deliberately oversubscribed) machine
        J += conc(prop, seed, ["handle-churn"], 4, s, label="long", base=80, extra=[["--long"]])
        J.append(miri(prop, seed, "churn", ["conc", "--families", "handle-churn", "--runs", "2", "--fl", "broadcast"], ms, mt, {"*": "C12,C04,C16"}, base=31))
    elif prop == "C13":
        J += shard_jobs(prop, seed, ["seq"], 4, s, "seq", base=100)
        J += conc(prop, seed, ["no-receiver"], 4, s)
        J += shard_jobs(prop, seed, ["fut"], n - 10, s, "fut", base=60)
        J += shard_jobs(prop, seed, ["tight", "--mode", "last-receiver"], 2, s, "last-receiver", base=90)
    elif prop == "C14":
        J += shard_jobs(prop, seed, ["fut"], n, s, "fut")
        J.append(miri(prop, seed, "fut", ["fut", "--runs", "2"], ms, mt, {"*": "C14"}, no_race=True, base=37))
    elif prop == "C15":
        J += shard_jobs(prop, seed, ["seq", "--cfgs", "fut"], 4, s, "seq", base=100)
        J += shard_jobs(prop, seed, ["fut"], 4, s, "fut", base=60)
        J += conc(prop, seed, ["steady", "view", "last-sender", "quiesce"], n - 8, s, extra=[["--fut", "1"]])
    elif prop == "C16":
        J += shard_jobs(prop, seed, ["churn", "--mode", "stress"], n - 4, s, "stress-asan", variant="asan",
                        tool_props={"*": "C16"})
        J += shard_jobs(prop, seed, ["churn", "--mode", "stress"], 4, s, "stress", base=30)
        J.append(miri(prop, seed, "stress", ["churn", "--mode", "stress", "--runs", "1", "--fl", "broadcast"], ms, mt, {"*": "C16"}, base=41))
    elif prop == "C17":
        J += shard_jobs(prop, seed, ["churn", "--mode", "teardown"], 4, s, "teardown")
        J += shard_jobs(prop, seed, ["churn", "--mode", "growth"], 5, s, "growth", base=20)
        J += shard_jobs(prop, seed, ["churn", "--mode", "stress", "--measure-growth"], 3, s, "concurrent", base=40)
        J += shard_jobs(prop, seed, ["churn", "--mode", "stress"], 2, s, "lsan", variant="asan", base=50, leaks=True,
                        tool_props={"asan-detected": "C17", "*": "C17,C16"})
        J.append(miri(prop, seed, "leaks", ["seq", "--runs", "2", "--len", "40", "--perm-every", "0"], ms, mt, {"miri-leak": "C17", "*": "C09"}, leaks=True, base=43))
    # additional Miri slices, most of them in the thorough tier only (UB / race / deadlock reports on the
    # families that the quick tier runs natively)
    # (the stream-list publication / removal orderings of C10 and C11 are only visible to Miri's race
    # detector, so these two slices run in the quick tier as well)
    if tier == "thorough" or prop in ("C10", "C11"):
        extra_miri = {
            "C06": (["conc", "--families", "quiesce,remove-stream", "--runs", "2", "--fl", "broadcast"], {"*": "C06,C04,C16"}, False),
            "C10": (["conc", "--families", "add-stream-sole", "--runs", "2"], {"*": "C10,C04,C16"}, False),
            "C11": (["conc", "--families", "remove-stream", "--runs", "2"], {"*": "C11,C04,C16"}, False),
            "C13": (["conc", "--families", "no-receiver", "--runs", "2", "--fl", "broadcast"], {"*": "C13,C05,C16"}, False),
            "C15": (["conc", "--families", "steady,last-sender", "--runs", "2", "--fut", "1", "--fl", "broadcast"], {"*": "C15,C04,C16"}, False),
        }
        if prop in extra_miri:
            a, tp, nr = extra_miri[prop]
            J.append(miri(prop, seed, "extra", a, ms // 2 if tier == "thorough" else ms, mt, tp, no_race=nr, base=53))
    if prop == "C18":
        J += shard_jobs(prop, seed, ["solo"], n, s, "solo")
    elif prop == "C19":
        J.append(dict(variant="native", args=["sendsync"], label="C19-sendsync", timeout=120))
    return J
