//! mq-sendsync (C19): the compiler's Send / Sync answers for the twelve public handle
//! types, read at run time through inherent-method-over-trait-method resolution, and
//! compared with the table the property prescribes. Instantiations the types'
//! own bounds forbid (e.g. BroadcastUniReceiver<Cell<_>>: T: Sync is required) do not exist
//! and are recorded as such.
use std::cell::Cell;
use std::marker::PhantomData;
use std::rc::Rc;

use multiqueue2 as mq;

use crate::out::J;
use crate::payload::violation;
use crate::report::Shard;
use crate::rng::Hasher64;

struct Probe<T: ?Sized>(PhantomData<T>);

trait FallbackSend {
    fn is_send(&self) -> bool {
        false
    }
}
trait FallbackSync {
    fn is_sync(&self) -> bool {
        false
    }
}
impl<T: ?Sized> FallbackSend for Probe<T> {}
impl<T: ?Sized> FallbackSync for Probe<T> {}
impl<T: ?Sized + Send> Probe<T> {
    fn is_send(&self) -> bool {
        true
    }
}
impl<T: ?Sized + Sync> Probe<T> {
    fn is_sync(&self) -> bool {
        true
    }
}

macro_rules! answers {
    ($t:ty) => {{
        let p: Probe<$t> = Probe(PhantomData);
        (p.is_send(), p.is_sync())
    }};
}

/// Send + !Sync, Clone
type SendOnly = Cell<u32>;
/// !Send + !Sync, Clone
type Neither = Rc<u32>;
/// Sync + !Send, Clone
#[derive(Clone)]
#[allow(dead_code)]
pub struct SyncOnly(*const u8);
unsafe impl Sync for SyncOnly {}

type FnPtr<T> = fn(&T) -> u32;
type BoxSend<T> = Box<dyn FnMut(&T) -> u32 + Send>;
type BoxLocal<T> = Box<dyn FnMut(&T) -> u32>;
/// closures whose *return value* is not Send / not Sync: the handle stores the closure, never a
/// returned value, so this must not change the answer
type FnPtrRetRc<T> = fn(&T) -> Rc<u32>;
type FnPtrRetCell<T> = fn(&T) -> Cell<u32>;
type BoxSendRetRc<T> = Box<dyn FnMut(&T) -> Rc<u32> + Send>;
type BoxLocalRetRc<T> = Box<dyn FnMut(&T) -> Rc<u32>>;

struct Row {
    ty: &'static str,
    payload: &'static str,
    closure: &'static str,
    send: bool,
    sync: bool,
    expect_send: bool,
}

pub fn run(shard: &mut Shard) {
    let mut rows: Vec<Row> = Vec::new();
    let mut unnameable: Vec<String> = Vec::new();
    macro_rules! row {
        ($name:expr, $pl:expr, $cl:expr, $t:ty, $exp:expr) => {{
            let (s, y) = answers!($t);
            rows.push(Row {
                ty: $name,
                payload: $pl,
                closure: $cl,
                send: s,
                sync: y,
                expect_send: $exp,
            });
        }};
    }
    // payload classes: (name, Send, Sync)
    // ---- mpmc family: Send iff T: Send
    row!("MPMCSender", "u32 (Send+Sync)", "-", mq::MPMCSender<u32>, true);
    row!("MPMCSender", "Cell<u32> (Send,!Sync)", "-", mq::MPMCSender<SendOnly>, true);
    row!("MPMCSender", "Rc<u32> (!Send,!Sync)", "-", mq::MPMCSender<Neither>, false);
    row!("MPMCSender", "SyncOnly (!Send,Sync)", "-", mq::MPMCSender<SyncOnly>, false);
    row!("MPMCReceiver", "u32 (Send+Sync)", "-", mq::MPMCReceiver<u32>, true);
    row!("MPMCReceiver", "Cell<u32> (Send,!Sync)", "-", mq::MPMCReceiver<SendOnly>, true);
    row!("MPMCReceiver", "Rc<u32> (!Send,!Sync)", "-", mq::MPMCReceiver<Neither>, false);
    row!("MPMCReceiver", "SyncOnly (!Send,Sync)", "-", mq::MPMCReceiver<SyncOnly>, false);
    row!("MPMCUniReceiver", "u32 (Send+Sync)", "-", mq::MPMCUniReceiver<u32>, true);
    row!("MPMCUniReceiver", "Cell<u32> (Send,!Sync)", "-", mq::MPMCUniReceiver<SendOnly>, true);
    row!("MPMCUniReceiver", "Rc<u32> (!Send,!Sync)", "-", mq::MPMCUniReceiver<Neither>, false);
    row!("MPMCUniReceiver", "SyncOnly (!Send,Sync)", "-", mq::MPMCUniReceiver<SyncOnly>, false);
    row!("MPMCFutSender", "u32 (Send+Sync)", "-", mq::MPMCFutSender<u32>, true);
    row!("MPMCFutSender", "Cell<u32> (Send,!Sync)", "-", mq::MPMCFutSender<SendOnly>, true);
    row!("MPMCFutSender", "Rc<u32> (!Send,!Sync)", "-", mq::MPMCFutSender<Neither>, false);
    row!("MPMCFutSender", "SyncOnly (!Send,Sync)", "-", mq::MPMCFutSender<SyncOnly>, false);
    row!("MPMCFutReceiver", "u32 (Send+Sync)", "-", mq::MPMCFutReceiver<u32>, true);
    row!("MPMCFutReceiver", "Cell<u32> (Send,!Sync)", "-", mq::MPMCFutReceiver<SendOnly>, true);
    row!("MPMCFutReceiver", "Rc<u32> (!Send,!Sync)", "-", mq::MPMCFutReceiver<Neither>, false);
    row!("MPMCFutReceiver", "SyncOnly (!Send,Sync)", "-", mq::MPMCFutReceiver<SyncOnly>, false);
    row!("MPMCFutUniReceiver", "u32 (Send+Sync)", "fn pointer", mq::MPMCFutUniReceiver<u32, FnPtr<u32>, u32>, true);
    row!("MPMCFutUniReceiver", "u32 (Send+Sync)", "Box<dyn FnMut + Send>", mq::MPMCFutUniReceiver<u32, BoxSend<u32>, u32>, true);
    row!("MPMCFutUniReceiver", "u32 (Send+Sync)", "Box<dyn FnMut> (!Send)", mq::MPMCFutUniReceiver<u32, BoxLocal<u32>, u32>, false);
    row!("MPMCFutUniReceiver", "Cell<u32> (Send,!Sync)", "fn pointer", mq::MPMCFutUniReceiver<u32, FnPtr<SendOnly>, SendOnly>, true);
    row!("MPMCFutUniReceiver", "u32 (Send+Sync)", "fn pointer returning Rc (return type !Send)", mq::MPMCFutUniReceiver<Rc<u32>, FnPtrRetRc<u32>, u32>, true);
    row!("MPMCFutUniReceiver", "u32 (Send+Sync)", "fn pointer returning Cell (return type !Sync)", mq::MPMCFutUniReceiver<Cell<u32>, FnPtrRetCell<u32>, u32>, true);
    row!("MPMCFutUniReceiver", "Cell<u32> (Send,!Sync)", "Box<dyn FnMut + Send> returning Rc", mq::MPMCFutUniReceiver<Rc<u32>, BoxSendRetRc<SendOnly>, SendOnly>, true);
    row!("MPMCFutUniReceiver", "u32 (Send+Sync)", "Box<dyn FnMut> (!Send) returning Rc", mq::MPMCFutUniReceiver<Rc<u32>, BoxLocalRetRc<u32>, u32>, false);
    row!("MPMCFutUniReceiver", "Rc<u32> (!Send,!Sync)", "fn pointer", mq::MPMCFutUniReceiver<u32, FnPtr<Neither>, Neither>, false);
    row!("MPMCFutUniReceiver", "SyncOnly (!Send,Sync)", "fn pointer", mq::MPMCFutUniReceiver<u32, FnPtr<SyncOnly>, SyncOnly>, false);
    row!("MPMCFutUniReceiver", "Rc<u32> (!Send,!Sync)", "Box<dyn FnMut> (!Send)", mq::MPMCFutUniReceiver<u32, BoxLocal<Neither>, Neither>, false);
    // ---- broadcast family: Send iff T: Send + Sync
    row!("BroadcastSender", "u32 (Send+Sync)", "-", mq::BroadcastSender<u32>, true);
    row!("BroadcastSender", "Cell<u32> (Send,!Sync)", "-", mq::BroadcastSender<SendOnly>, false);
    row!("BroadcastSender", "Rc<u32> (!Send,!Sync)", "-", mq::BroadcastSender<Neither>, false);
    row!("BroadcastSender", "SyncOnly (!Send,Sync)", "-", mq::BroadcastSender<SyncOnly>, false);
    row!("BroadcastReceiver", "u32 (Send+Sync)", "-", mq::BroadcastReceiver<u32>, true);
    row!("BroadcastReceiver", "Cell<u32> (Send,!Sync)", "-", mq::BroadcastReceiver<SendOnly>, false);
    row!("BroadcastReceiver", "Rc<u32> (!Send,!Sync)", "-", mq::BroadcastReceiver<Neither>, false);
    row!("BroadcastReceiver", "SyncOnly (!Send,Sync)", "-", mq::BroadcastReceiver<SyncOnly>, false);
    row!("BroadcastUniReceiver", "u32 (Send+Sync)", "-", mq::BroadcastUniReceiver<u32>, true);
    row!("BroadcastUniReceiver", "SyncOnly (!Send,Sync)", "-", mq::BroadcastUniReceiver<SyncOnly>, false);
    unnameable.push("BroadcastUniReceiver<Cell<u32>> / <Rc<u32>>: the type itself requires T: Sync".to_string());
    row!("BroadcastFutSender", "u32 (Send+Sync)", "-", mq::BroadcastFutSender<u32>, true);
    row!("BroadcastFutSender", "Cell<u32> (Send,!Sync)", "-", mq::BroadcastFutSender<SendOnly>, false);
    row!("BroadcastFutSender", "Rc<u32> (!Send,!Sync)", "-", mq::BroadcastFutSender<Neither>, false);
    row!("BroadcastFutSender", "SyncOnly (!Send,Sync)", "-", mq::BroadcastFutSender<SyncOnly>, false);
    row!("BroadcastFutReceiver", "u32 (Send+Sync)", "-", mq::BroadcastFutReceiver<u32>, true);
    row!("BroadcastFutReceiver", "Cell<u32> (Send,!Sync)", "-", mq::BroadcastFutReceiver<SendOnly>, false);
    row!("BroadcastFutReceiver", "Rc<u32> (!Send,!Sync)", "-", mq::BroadcastFutReceiver<Neither>, false);
    row!("BroadcastFutReceiver", "SyncOnly (!Send,Sync)", "-", mq::BroadcastFutReceiver<SyncOnly>, false);
    row!("BroadcastFutUniReceiver", "u32 (Send+Sync)", "fn pointer", mq::BroadcastFutUniReceiver<u32, FnPtr<u32>, u32>, true);
    row!("BroadcastFutUniReceiver", "u32 (Send+Sync)", "Box<dyn FnMut + Send>", mq::BroadcastFutUniReceiver<u32, BoxSend<u32>, u32>, true);
    row!("BroadcastFutUniReceiver", "u32 (Send+Sync)", "Box<dyn FnMut> (!Send)", mq::BroadcastFutUniReceiver<u32, BoxLocal<u32>, u32>, false);
    row!("BroadcastFutUniReceiver", "SyncOnly (!Send,Sync)", "fn pointer", mq::BroadcastFutUniReceiver<u32, FnPtr<SyncOnly>, SyncOnly>, false);
    row!("BroadcastFutUniReceiver", "u32 (Send+Sync)", "fn pointer returning Rc (return type !Send)", mq::BroadcastFutUniReceiver<Rc<u32>, FnPtrRetRc<u32>, u32>, true);
    row!("BroadcastFutUniReceiver", "u32 (Send+Sync)", "fn pointer returning Cell (return type !Sync)", mq::BroadcastFutUniReceiver<Cell<u32>, FnPtrRetCell<u32>, u32>, true);
    row!("BroadcastFutUniReceiver", "u32 (Send+Sync)", "Box<dyn FnMut + Send> returning Rc", mq::BroadcastFutUniReceiver<Rc<u32>, BoxSendRetRc<u32>, u32>, true);
    row!("BroadcastFutUniReceiver", "u32 (Send+Sync)", "Box<dyn FnMut> (!Send) returning Rc", mq::BroadcastFutUniReceiver<Rc<u32>, BoxLocalRetRc<u32>, u32>, false);
    unnameable.push("BroadcastFutUniReceiver<_, _, Cell<u32>> / <Rc<u32>>: the type itself requires T: Sync".to_string());

    let mut table = Vec::new();
    let mut bad = 0;
    for r in &rows {
        let mut h = Hasher64::new();
        h.add_str(r.ty);
        h.add_str(r.payload);
        h.add_str(r.closure);
        shard.distinct.insert(h.get());
        // non-trivial cells: the answer must be "no"
        if !r.expect_send {
            shard.nontrivial.insert(h.get());
        }
        shard.evaluations += 1;
        table.push(J::s(format!(
            "{}<{}{}>: Send={} (expected {}) Sync={} (expected false)",
            r.ty,
            r.payload,
            if r.closure == "-" { String::new() } else { format!(", closure {}", r.closure) },
            r.send,
            r.expect_send,
            r.sync
        )));
        if r.send != r.expect_send {
            bad += 1;
            violation(
                "C19",
                "send-table",
                format!("send-table:{}:{}:{}:{}", r.ty, r.payload.split(' ').next().unwrap_or(""), r.closure.split(' ').next().unwrap_or(""), if r.send { "wrongly-Send" } else { "wrongly-not-Send" }),
                format!(
                    "{} instantiated with payload {} (closure: {}) is {} but the property requires it to be {}",
                    r.ty,
                    r.payload,
                    r.closure,
                    if r.send { "Send" } else { "!Send" },
                    if r.expect_send { "Send" } else { "!Send" }
                ),
            );
        }
        if r.sync {
            bad += 1;
            violation(
                "C19",
                "sync-table",
                format!("sync-table:{}:{}", r.ty, r.payload.split(' ').next().unwrap_or("")),
                format!("{} with payload {} is Sync; no handle type may be Sync", r.ty, r.payload),
            );
        }
    }
    shard.stat("cells", rows.len() as u64);
    shard.stat("cells_wrong", bad);
    shard.samples.push(J::obj().set("table", J::Arr(table)).set("unnameable", J::Arr(unnameable.into_iter().map(J::s).collect())));
    let vs = crate::payload::take_violations();
    if !vs.is_empty() {
        let replay = J::obj().set("engine", J::s("sendsync"));
        // keep every distinct cell
        for v in vs {
            shard.violations.push(crate::report::VioOut { v, replay: replay.clone() });
        }
    }
}
