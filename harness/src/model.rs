//! The reference model of 4.3: one append-only log, one cursor per stream, a window
//! of N, a sender count, a "no receivers" latch.
use std::collections::BTreeMap;

#[derive(Clone, Debug)]
pub struct MStream {
    pub cursor: u64,
    pub handles: u32,
}

#[derive(Clone, Debug)]
pub struct Model {
    pub n: u64,
    pub log: Vec<u64>,
    pub streams: BTreeMap<u32, MStream>,
    pub senders: u32,
    pub no_readers: bool,
}

#[derive(Clone, Copy, Debug, PartialEq)]
pub enum MSend {
    Ok,
    Full,
    Disc,
}
#[derive(Clone, Copy, Debug, PartialEq)]
pub enum MRecv {
    Val(u64),
    Empty,
    End,
}

pub fn capacity_for(requested: u64) -> u64 {
    requested.max(1).next_power_of_two()
}

impl Model {
    pub fn new(requested_cap: u64, first_stream: u32) -> Model {
        let mut streams = BTreeMap::new();
        streams.insert(
            first_stream,
            MStream {
                cursor: 0,
                handles: 1,
            },
        );
        Model {
            n: capacity_for(requested_cap),
            log: Vec::new(),
            streams,
            senders: 1,
            no_readers: false,
        }
    }
    pub fn min_cursor(&self) -> Option<u64> {
        self.streams.values().map(|s| s.cursor).min()
    }
    pub fn outstanding(&self) -> u64 {
        match self.min_cursor() {
            Some(c) => self.log.len() as u64 - c,
            None => 0,
        }
    }
    pub fn peek_send(&self) -> MSend {
        if self.no_readers {
            MSend::Disc
        } else if self.outstanding() >= self.n {
            MSend::Full
        } else {
            MSend::Ok
        }
    }
    pub fn try_send(&mut self, id: u64) -> MSend {
        let r = self.peek_send();
        if r == MSend::Ok {
            self.log.push(id);
        }
        r
    }
    pub fn peek_recv(&self, stream: u32) -> MRecv {
        let s = &self.streams[&stream];
        if (s.cursor as usize) < self.log.len() {
            MRecv::Val(self.log[s.cursor as usize])
        } else if self.senders == 0 {
            MRecv::End
        } else {
            MRecv::Empty
        }
    }
    pub fn try_recv(&mut self, stream: u32) -> MRecv {
        let r = self.peek_recv(stream);
        if let MRecv::Val(_) = r {
            self.streams.get_mut(&stream).unwrap().cursor += 1;
        }
        r
    }
    pub fn add_stream(&mut self, parent: u32, new_stream: u32) {
        let c = self.streams[&parent].cursor;
        self.streams.insert(
            new_stream,
            MStream {
                cursor: c,
                handles: 1,
            },
        );
    }
    pub fn clone_rx(&mut self, stream: u32) {
        self.streams.get_mut(&stream).unwrap().handles += 1;
    }
    /// returns true iff this was the last handle of the stream
    pub fn drop_rx(&mut self, stream: u32) -> bool {
        let s = self.streams.get_mut(&stream).unwrap();
        s.handles -= 1;
        if s.handles == 0 {
            self.streams.remove(&stream);
            if self.streams.is_empty() {
                self.no_readers = true;
            }
            true
        } else {
            false
        }
    }
    pub fn handles(&self, stream: u32) -> u32 {
        self.streams[&stream].handles
    }
    pub fn clone_tx(&mut self) {
        self.senders += 1;
    }
    pub fn drop_tx(&mut self) {
        self.senders -= 1;
    }
    pub fn describe(&self) -> String {
        format!(
            "N={} len={} senders={} no_readers={} streams={:?}",
            self.n,
            self.log.len(),
            self.senders,
            self.no_readers,
            self.streams
                .iter()
                .map(|(k, s)| format!("s{}@{}x{}", k, s.cursor, s.handles))
                .collect::<Vec<_>>()
        )
    }
}
