#!/usr/bin/env python3
"""Regenerates /verif/MANIFEST.json from lib/props.py (run after editing the tables)."""
import json, os, sys
sys.path.insert(0, os.path.dirname(os.path.abspath(__file__)))
from props import PROPS

VERIF = os.path.dirname(os.path.dirname(os.path.abspath(__file__)))
ALL = ["C%02d" % i for i in range(1, 20)]

TEXT = {
 "C01": ("offline exactly-once checker over boundary histories with unique ids", "6 C01"),
 "C02": ("precedence-graph acyclicity over boundary histories + claim positions cross-check", "6 C02"),
 "C03": ("capacity rule over logical call/return stamps + quiescent fill count", "6 C03"),
 "C04": ("payload self-check during clone/closure/delivery + Miri race detector + ASan", "6 C04"),
 "C05": ("per-instance birth/drop ledger over all teardown orders + ASan/Miri", "6 C05"),
 "C06": ("reference-model differential at quiescent points (fill to Full / drain to Empty)", "6 C06"),
 "C07": ("three end-of-stream rules over boundary histories", "6 C07"),
 "C08": ("frozen-state wake predicate through a spying Wait strategy; Miri deadlock report", "6 C08"),
 "C09": ("call-by-call differential execution against the reference model", "6 C09"),
 "C10": ("start-position bound from the parent's history + C01-C03/C06 oracles", "6 C10"),
 "C11": ("quiescent probe after stream removal + unsubscribe boolean rule", "6 C11"),
 "C12": ("C01/C02/C03/C06 oracles under handle clone/drop churn", "6 C12"),
 "C13": ("model differential on sends after the last receiver is gone; executor probe for parked sinks", "6 C13"),
 "C14": ("probe-poll of unnotified parked tasks at global quiescence (harness is the executor)", "6 C14"),
 "C15": ("model differential on Sink/Stream results + own-step bound on poll/start_send", "6 C15"),
 "C16": ("AddressSanitizer / Miri reports under reclamation churn", "6 C16"),
 "C17": ("counting allocator: live bytes at teardown and growth bound under churn; Miri leak report", "6 C17"),
 "C18": ("own-step bound of a solo try operation while every other thread is frozen at a hook site", "6 C18"),
 "C19": ("run-time table of the compiler's Send/Sync answers + Miri race witness", "6 C19"),
}

def main():
    checks = []
    na = []
    for pid in ALL:
        if pid in PROPS:
            sp = PROPS[pid]
            tech, ref = TEXT[pid]
            checks.append(dict(
                property_id=pid,
                quick_cmd="./check %s quick" % pid,
                thorough_cmd="./check %s thorough" % pid,
                evidence_file="/verif/evidence/%s.json" % pid,
                replay_cmd_template="./check replay {path}",
                engine=sp.get("engine", "mqv"),
                level_claimed=dict(category=sp["level"],
                                   text=sp.get("level_text", "Runtime monitoring: the property held on every execution that was produced (counts, distinct overlap signatures and hook coverage are in the evidence file); nothing is proved about schedules that were not produced."),
                                   design_ref="DESIGN.md section " + ref),
                level_note=sp.get("level_note", "Trusted base: the harness monitors (payload ledger, logical clock, offline checkers), the hook points compiled into the crate under --cfg multiqueue2_verif, rustc/Miri/ASan. Schedules are sampled; only sequentially consistent outcomes are judged."),
                technique=tech,
            ))
        else:
            na.append(dict(property_id=pid, reason=NA.get(pid, "check not built yet in this session (work in progress; see DESIGN.md section 6)")))
    m = dict(
        version=1,
        setup_cmd="./check setup",
        hooks=dict(
            guard="multiqueue2_verif",
            enable="RUSTFLAGS='--cfg multiqueue2_verif' (passed by ./check for the native, asan and miri harness builds)",
            baseline_off_cmd="cd /repo && (cargo nextest run --workspace --no-fail-fast --offline || cargo test --workspace --no-fail-fast --offline)",
            source_commits=open(os.path.join(VERIF, "hook_commits.txt")).read().split() if os.path.exists(os.path.join(VERIF, "hook_commits.txt")) else [],
            add_only=True,
        ),
        engines=[
            dict(name="mq-seq", path="harness/src/seq.rs", serves_properties=["C09", "C05", "C11", "C13", "C15", "C03", "C17"], kind_free_text="single-threaded differential execution against the reference model + payload ledger over all teardown orders"),
            dict(name="mq-conc", path="harness/src/conc.rs", serves_properties=["C01", "C02", "C03", "C04", "C05", "C06", "C07", "C10", "C11", "C12", "C13", "C15"], kind_free_text="concurrent scenario engine: boundary history, stall injection at hook sites, quiescent probe, offline checkers"),
            dict(name="mq-tight", path="harness/src/tight.rs", serves_properties=["C04", "C05"], kind_free_text="free-running contention stress on one shared stream of a tiny queue; payload self-check and ledger only"),
            dict(name="mq-wake", path="harness/src/wake.rs", serves_properties=["C08"], kind_free_text="blocked consumers observed through a spying Wait strategy; frozen-state wake predicate"),
            dict(name="mq-fut", path="harness/src/futx.rs", serves_properties=["C14", "C13", "C15"], kind_free_text="harness-as-executor futures scenarios with probe-poll at quiescence"),
            dict(name="mq-churn", path="harness/src/churn.rs", serves_properties=["C16", "C17"], kind_free_text="reclamation churn under AddressSanitizer/Miri; counting allocator accounting"),
            dict(name="mq-solo", path="harness/src/solo.rs", serves_properties=["C18"], kind_free_text="freeze injection: one try operation runs alone, own steps counted"),
            dict(name="mq-sendsync", path="harness/src/sendsync.rs", serves_properties=["C19"], kind_free_text="run-time table of the compiler's Send/Sync answers"),
        ],
        checks=checks,
        notes="All checks are runtime monitors over executions of the real crate (native threads with hook-point injection, Miri, AddressSanitizer). known_findings.json lists recorded genuine defects and the fix: commits.",
        not_applicable=na,
    )
    json.dump(m, open(os.path.join(VERIF, "MANIFEST.json"), "w"), indent=1)
    print("wrote MANIFEST.json: %d checks, %d not_applicable" % (len(checks), len(na)))

NA = {}
if __name__ == "__main__":
    main()
