#!/bin/bash
# usage: lib/eval_seeded.sh <seeded-dir> <prop>[,<prop>...] [tier]
# Applies a seeded change to /repo, runs the named checks, and always restores /repo.
d=$(readlink -f "$1"); props=$2; tier=${3:-quick}
cd /verif
if ! git -C /repo diff --quiet; then echo "refusing: /repo has uncommitted changes"; exit 3; fi
git -C /repo apply "$d/patch.diff" || { echo "patch does not apply"; exit 3; }
trap 'git -C /repo checkout -- . ; git -C /repo clean -fdq tests/demo.rs 2>/dev/null' EXIT
for p in ${props//,/ }; do
  ./check $p $tier > "$d/check_${p}_${tier}.log" 2>&1; rc=$?
  echo "$p $tier exit=$rc $(grep -c '^VIOLATION' "$d/check_${p}_${tier}.log") violation line(s): $(grep -m3 -E '^  rule=' "$d/check_${p}_${tier}.log" | tr '\n' ' ')"
done
