//! Tracked payload + per-instance ledger (C01 unique ids, C04 self-check, C05 ledger).
//!
//! Every instance (original or clone) gets a fresh serial; the registry holds
//! UNBORN -> ALIVE -> DEAD per serial, updated by single atomic operations by
//! the thread that performs the transition, so the monitor itself is race free.
use std::ptr;
use std::sync::atomic::Ordering::{Relaxed, SeqCst};
use std::sync::atomic::{AtomicBool, AtomicU32, AtomicU64, AtomicU8};
use std::sync::{Mutex, OnceLock};

use crate::hist;
use crate::hooks;

pub const UNBORN: u8 = 0;
pub const ALIVE: u8 = 1;
pub const DEAD: u8 = 2;

#[derive(Clone, Debug)]
pub struct Violation {
    pub prop: &'static str,
    pub rule: &'static str,
    pub sig: String,
    pub detail: String,
}

static VIOLS: Mutex<Vec<Violation>> = Mutex::new(Vec::new());
static NVIOLS: AtomicU32 = AtomicU32::new(0);

pub fn violation(prop: &'static str, rule: &'static str, sig: String, detail: String) {
    NVIOLS.fetch_add(1, Relaxed);
    let mut v = match VIOLS.lock() {
        Ok(g) => g,
        Err(p) => p.into_inner(),
    };
    if v.len() < 64 {
        v.push(Violation {
            prop,
            rule,
            sig,
            detail,
        });
    }
}

pub fn take_violations() -> Vec<Violation> {
    NVIOLS.store(0, Relaxed);
    let mut v = match VIOLS.lock() {
        Ok(g) => g,
        Err(p) => p.into_inner(),
    };
    std::mem::take(&mut *v)
}

pub fn violations_pending() -> u32 {
    NVIOLS.load(Relaxed)
}

static REG: OnceLock<Box<[AtomicU8]>> = OnceLock::new();
static NEXT_SERIAL: AtomicU32 = AtomicU32::new(1);
/// payloads carry a heap allocation unless pod mode is on (Miri mpmc shared-stream shards)
static POD_MODE: AtomicBool = AtomicBool::new(false);
static WRAPPED: AtomicBool = AtomicBool::new(false);
/// clones / closures that saw other boundary events happen while they were in progress
pub static MID_OVERLAPS: AtomicU64 = AtomicU64::new(0);
pub static CLONES: AtomicU64 = AtomicU64::new(0);
pub static VIEWS: AtomicU64 = AtomicU64::new(0);
pub static BIRTHS: AtomicU64 = AtomicU64::new(0);
pub static DROPS: AtomicU64 = AtomicU64::new(0);

pub fn reg_capacity() -> usize {
    if cfg!(miri) {
        1 << 11
    } else {
        1 << 21
    }
}

fn reg() -> &'static [AtomicU8] {
    REG.get_or_init(|| {
        let n = reg_capacity();
        let mut v = Vec::with_capacity(n);
        for _ in 0..n {
            v.push(AtomicU8::new(UNBORN));
        }
        v.into_boxed_slice()
    })
}

pub fn set_pod_mode(on: bool) {
    POD_MODE.store(on, Relaxed);
}

/// Reset the ledger between runs (only call when no Tracked instance is reachable).
pub fn reset_ledger() {
    let used = NEXT_SERIAL.swap(1, SeqCst) as usize;
    let r = reg();
    let used = if WRAPPED.swap(false, Relaxed) { r.len() } else { used.min(r.len()) };
    for s in r.iter().take(used) {
        s.store(UNBORN, Relaxed);
    }
    MID_OVERLAPS.store(0, Relaxed);
    CLONES.store(0, Relaxed);
    VIEWS.store(0, Relaxed);
    BIRTHS.store(0, Relaxed);
    DROPS.store(0, Relaxed);
}

pub fn serials_used() -> u32 {
    NEXT_SERIAL.load(SeqCst)
}

/// serials still ALIVE (leaks when called after full teardown)
pub fn alive_serials() -> Vec<u32> {
    let used = (NEXT_SERIAL.load(SeqCst) as usize).min(reg().len());
    let mut out = Vec::new();
    for (i, s) in reg().iter().enumerate().take(used) {
        if s.load(SeqCst) == ALIVE {
            out.push(i as u32);
        }
    }
    out
}

#[inline]
fn body_of(id: u64) -> [u64; 3] {
    [
        id.wrapping_mul(0x9E37_79B9_7F4A_7C15) ^ 0xA5A5_A5A5_5A5A_5A5A,
        id.rotate_left(17) ^ 0x0123_4567_89AB_CDEF,
        !id.wrapping_mul(31),
    ]
}
#[inline]
fn heap_of(id: u64) -> [u64; 2] {
    [id ^ 0xFEED_FACE_CAFE_BEEF, id.wrapping_add(0x1111_2222_3333_4444)]
}

pub struct Tracked {
    id: u64,
    nid: u64,
    serial: u32,
    body: [u64; 3],
    heap: Option<Box<[u64; 2]>>,
}

// The payload is plain data; it is deliberately Send + Sync (automatic).

/// what a view closure / verification saw
#[derive(Clone, Copy, Debug, PartialEq)]
pub struct Seen {
    pub id: u64,
    pub serial: u32,
    pub ok: bool,
}

#[derive(Clone, Copy, PartialEq, Debug)]
struct Snap {
    id: u64,
    nid: u64,
    serial: u32,
    body: [u64; 3],
    heap: Option<[u64; 2]>,
    state: u8,
}

impl Tracked {
    pub fn new(id: u64) -> Tracked {
        let r = reg();
        let mut serial = NEXT_SERIAL.fetch_add(1, SeqCst);
        if (serial as usize) >= r.len() {
            // long stress runs: recycle ledger slots (the registry is far larger than anything a
            // queue can hold, so the previous occupant of a slot must be dead by now)
            serial = 1 + (serial % (r.len() as u32 - 1));
            WRAPPED.store(true, Relaxed);
        }
        let prev = r[serial as usize].swap(ALIVE, SeqCst);
        if prev == ALIVE {
            hooks::harness_error("payload registry slot recycled while its previous occupant is alive");
        }
        BIRTHS.fetch_add(1, Relaxed);
        Tracked {
            id,
            nid: !id,
            serial,
            body: body_of(id),
            heap: if POD_MODE.load(Relaxed) {
                None
            } else {
                Some(Box::new(heap_of(id)))
            },
        }
    }

    pub fn id(&self) -> u64 {
        self.id
    }
    pub fn serial(&self) -> u32 {
        self.serial
    }

    #[inline(never)]
    fn snap(&self) -> Snap {
        unsafe {
            let id = ptr::read_volatile(&self.id);
            let nid = ptr::read_volatile(&self.nid);
            let serial = ptr::read_volatile(&self.serial);
            let body = ptr::read_volatile(&self.body);
            let state = if (serial as usize) < reg().len() {
                reg()[serial as usize].load(SeqCst)
            } else {
                255
            };
            // only follow the heap pointer of something that looks like a live payload
            // (a stale / garbage pointer must not crash the monitor; ASan / Miri still see
            // genuine stale accesses made by the queue itself)
            let heap = if nid == !id && state == ALIVE {
                match &self.heap {
                    Some(b) => Some(ptr::read_volatile(&**b)),
                    None => None,
                }
            } else {
                Some([0, 0])
            };
            Snap {
                id,
                nid,
                serial,
                body,
                heap,
                state,
            }
        }
    }

    fn snap_ok(s: &Snap) -> bool {
        s.nid == !s.id
            && s.body == body_of(s.id)
            && s.state == ALIVE
            && match s.heap {
                Some(h) => h == heap_of(s.id),
                None => POD_MODE.load(Relaxed),
            }
    }

    /// Full self check with a hold in the middle (used by Clone, by view closures and on
    /// every delivered value). `ctx` names the entry point for the violation record.
    pub fn verify_held(&self, ctx: &'static str, hold: bool) -> Seen {
        let a = self.snap();
        let c0 = hist::clock_peek();
        if hold {
            hooks::payload_mid();
        }
        let b = self.snap();
        let c1 = hist::clock_peek();
        if c1 != c0 {
            MID_OVERLAPS.fetch_add(1, Relaxed);
        }
        let ok = Tracked::snap_ok(&a) && Tracked::snap_ok(&b) && a == b;
        if !ok {
            // a value that was already destroyed while a consumer could still reach it is also a
            // lifetime (C05) violation, not only an integrity (C04) one
            let destroyed = a.state == DEAD || b.state == DEAD;
            violation(
                if destroyed { "C04,C05" } else { "C04" },
                "payload-integrity",
                format!("payload-integrity:{}", ctx),
                format!(
                    "{}: value observed incomplete/dead/changing: before={:?} after={:?} (state 1=ALIVE 2=DEAD 0=UNBORN)",
                    ctx, a, b
                ),
            );
        }
        Seen {
            id: a.id,
            serial: a.serial,
            ok,
        }
    }
}

impl Clone for Tracked {
    fn clone(&self) -> Tracked {
        CLONES.fetch_add(1, Relaxed);
        let seen = self.verify_held("clone", true);
        // The copy carries the id that was observed; if the source was garbage the
        // violation has already been recorded.
        Tracked::new(seen.id)
    }
}

impl Drop for Tracked {
    fn drop(&mut self) {
        DROPS.fetch_add(1, Relaxed);
        let s = self.snap();
        let r = reg();
        if (s.serial as usize) < r.len() && s.nid == !s.id {
            match r[s.serial as usize].compare_exchange(ALIVE, DEAD, SeqCst, SeqCst) {
                Ok(_) => {}
                Err(prev) => {
                    violation(
                        "C05",
                        "drop-ledger",
                        format!("drop-ledger:{}", if prev == DEAD { "double-drop" } else { "drop-of-unborn" }),
                        format!(
                            "instance serial={} id={:#x} dropped while ledger state={} (2=DEAD: second drop, 0=never born)",
                            s.serial, s.id, prev
                        ),
                    );
                    // the heap block belongs to the first owner (already freed or about to be):
                    // do not let the monitor itself crash the process with a double free
                    let h = self.heap.take();
                    std::mem::forget(h);
                    return;
                }
            }
        } else {
            violation(
                "C05",
                "drop-ledger",
                "drop-ledger:drop-of-garbage".to_string(),
                format!("drop called on something that is not a live payload: {:?}", s),
            );
            // do not free a garbage heap pointer
            let h = self.heap.take();
            std::mem::forget(h);
            return;
        }
        // poison so that stale readers fail the canary
        unsafe {
            ptr::write_volatile(&mut self.id, 0xDEAD_DEAD_DEAD_DEAD);
            ptr::write_volatile(&mut self.nid, 0xDEAD_DEAD_DEAD_DEAD);
            ptr::write_volatile(&mut self.body, [0xDD; 3]);
        }
    }
}

/// the view operation used for every *_view call and every futures uni receiver
pub fn view_op(v: &Tracked) -> Seen {
    VIEWS.fetch_add(1, Relaxed);
    v.verify_held("view-closure", true)
}

pub type ViewFn = fn(&Tracked) -> Seen;

/// check a delivered (owned) value and consume it
pub fn consume(v: Tracked, ctx: &'static str) -> Seen {
    let s = v.verify_held(ctx, false);
    drop(v);
    s
}

/// intern a dynamically built property list (small closed set in practice)
pub fn intern(v: String) -> &'static str {
    static SET: Mutex<Vec<&'static str>> = Mutex::new(Vec::new());
    let mut g = match SET.lock() {
        Ok(g) => g,
        Err(p) => p.into_inner(),
    };
    if let Some(x) = g.iter().find(|x| **x == v.as_str()) {
        return x;
    }
    let l: &'static str = Box::leak(v.into_boxed_str());
    g.push(l);
    l
}
