//! mq-tight: free-running contention stress with minimal harness overhead (no history, no
//! per-call bookkeeping): several consumers hammer one shared stream of a tiny queue while
//! producers refill it. The oracles are the payload's own self-check during clone / on
//! delivery (C04) and the per-instance ledger (C05). This is the complement of mq-conc: windows
//! of a few instructions that contain no hook site are only reachable when the threads spend
//! nearly all their time inside the queue and contend on its cache lines.
use std::sync::atomic::Ordering::SeqCst;
use std::sync::atomic::{AtomicBool, AtomicU64};
use std::sync::Arc;
use std::time::{Duration, Instant};

use multiqueue2 as mq;

use crate::api::Flavour;
use crate::hist;
use crate::hooks::{self, site, Policy};
use crate::out::J;
use crate::payload::{self, consume, view_op, violation, Tracked};
use crate::report::Shard;
use crate::rng::{Hasher64, Rng};

#[derive(Clone, Debug)]
pub struct TightCfg {
    pub fl: Flavour,
    pub cap: u64,
    pub producers: u32,
    pub shared_consumers: u32,
    pub extra_uni_stream: bool,
    pub millis: u64,
    pub seed: u64,
}

impl TightCfg {
    pub fn describe(&self) -> String {
        format!(
            "tight {} cap={} producers={} consumers-on-one-stream={} extra-view-stream={} {}ms",
            self.fl.name(),
            self.cap,
            self.producers,
            self.shared_consumers,
            self.extra_uni_stream,
            self.millis
        )
    }
}

pub fn gen_cfg(rng: &mut Rng, small: bool) -> TightCfg {
    let fl = if rng.chance(3, 4) { Flavour::Broadcast } else { Flavour::Mpmc };
    TightCfg {
        fl,
        cap: *rng.pick(&[0u64, 1, 1, 2, 2, 4]),
        producers: 1 + rng.below(2) as u32,
        shared_consumers: 2 + rng.below(3) as u32,
        extra_uni_stream: fl == Flavour::Broadcast && rng.chance(1, 3),
        millis: if small { 5 } else { 300 + rng.below(700) },
        seed: rng.next(),
    }
}

struct Sh {
    go: AtomicBool,
    stop: AtomicBool,
    sent: AtomicU64,
    received: AtomicU64,
}

pub fn run_once(cfg: &TightCfg, shard: &mut Shard) -> (u64, bool) {
    payload::reset_ledger();
    payload::set_pod_mode(cfg!(miri) && cfg.fl == Flavour::Mpmc);
    hist::set_enabled(false);
    hooks::thread_begin(0, crate::conc::ROLE_MAIN, cfg.seed, Policy::None, &[]);
    let lost_before = hooks::SITE_HITS[site::R_CAS_LOST as usize].load(SeqCst) + hooks::SITE_HITS[site::R_PIN_LOST as usize].load(SeqCst);
    let sh = Arc::new(Sh {
        go: AtomicBool::new(false),
        stop: AtomicBool::new(false),
        sent: AtomicU64::new(0),
        received: AtomicU64::new(0),
    });
    let mut joins = Vec::new();
    let mut rng = Rng::new(cfg.seed);
    let mut tid = 1u32;
    macro_rules! spawn_all {
        ($tx:expr, $rx:expr, $uni:expr) => {{
            let tx = $tx;
            let rx = $rx;
            for p in 0..cfg.producers {
                let t = tx.clone();
                let sh = sh.clone();
                let my = tid;
                let seed = rng.next();
                joins.push(std::thread::spawn(move || {
                    hooks::thread_begin(my, crate::conc::ROLE_PRODUCER, seed, Policy::None, &[]);
                    hist::set_enabled(false);
                    while !sh.go.load(SeqCst) {
                        std::thread::yield_now();
                    }
                    let mut id = ((p as u64 + 1) << 40) | 1;
                    let mut n = 0u64;
                    while !sh.stop.load(SeqCst) {
                        match t.try_send(Tracked::new(id)) {
                            Ok(()) => {
                                id += 1;
                                n += 1;
                            }
                            Err(e) => {
                                // the refused value comes back and is dropped here
                                drop(e);
                                std::hint::spin_loop();
                            }
                        }
                    }
                    sh.sent.fetch_add(n, SeqCst);
                    drop(t);
                    hooks::thread_end();
                }));
                tid += 1;
            }
            for _ in 0..cfg.shared_consumers {
                let r = rx.clone();
                let sh = sh.clone();
                let my = tid;
                let seed = rng.next();
                joins.push(std::thread::spawn(move || {
                    hooks::thread_begin(my, crate::conc::ROLE_CONSUMER, seed, Policy::None, &[]);
                    hist::set_enabled(false);
                    while !sh.go.load(SeqCst) {
                        std::thread::yield_now();
                    }
                    let mut n = 0u64;
                    while !sh.stop.load(SeqCst) {
                        if let Ok(v) = r.try_recv() {
                            consume(v, "delivered");
                            n += 1;
                        }
                    }
                    sh.received.fetch_add(n, SeqCst);
                    drop(r);
                    hooks::thread_end();
                }));
                tid += 1;
            }
            if let Some(u) = $uni {
                let sh = sh.clone();
                let my = tid;
                let seed = rng.next();
                joins.push(std::thread::spawn(move || {
                    hooks::thread_begin(my, crate::conc::ROLE_CONSUMER, seed, Policy::None, &[]);
                    hist::set_enabled(false);
                    while !sh.go.load(SeqCst) {
                        std::thread::yield_now();
                    }
                    while !sh.stop.load(SeqCst) {
                        let _ = u.try_recv_view(view_op);
                    }
                    drop(u);
                    hooks::thread_end();
                }));
                tid += 1;
            }
            drop(tx);
            drop(rx);
        }};
    }
    match cfg.fl {
        Flavour::Broadcast => {
            let (tx, rx) = mq::broadcast_queue_with::<Tracked, _>(cfg.cap, mq::wait::BusyWait::new());
            let uni = if cfg.extra_uni_stream { rx.add_stream().into_single().ok() } else { None };
            spawn_all!(tx, rx, uni);
        }
        Flavour::Mpmc => {
            let (tx, rx) = mq::mpmc_queue_with::<Tracked, _>(cfg.cap, mq::wait::BusyWait::new());
            let none: Option<mq::MPMCUniReceiver<Tracked>> = None;
            spawn_all!(tx, rx, none);
        }
    }
    sh.go.store(true, SeqCst);
    let t0 = Instant::now();
    while t0.elapsed() < Duration::from_millis(cfg.millis) && payload::violations_pending() == 0 {
        if cfg!(miri) {
            std::thread::yield_now();
        } else {
            std::thread::sleep(Duration::from_millis(1));
        }
    }
    sh.stop.store(true, SeqCst);
    for j in joins {
        let _ = j.join();
    }
    hooks::thread_end();
    hist::set_enabled(true);
    let alive = payload::alive_serials();
    if !alive.is_empty() {
        violation(
            "C05",
            "never-dropped",
            "never-dropped:after-teardown".to_string(),
            format!("{} payload instance(s) alive after every handle was dropped ({})", alive.len(), cfg.describe()),
        );
    }
    let lost = hooks::SITE_HITS[site::R_CAS_LOST as usize].load(SeqCst) + hooks::SITE_HITS[site::R_PIN_LOST as usize].load(SeqCst) - lost_before;
    shard.stat("values_sent", sh.sent.load(SeqCst));
    shard.stat("values_received", sh.received.load(SeqCst));
    shard.stat("lost_position_races(R_CAS_LOST+R_PIN_LOST)", lost);
    shard.stat("clones", payload::CLONES.load(SeqCst));
    let vs = payload::take_violations();
    if !vs.is_empty() {
        let replay = J::obj().set("engine", J::s("tight")).set("cfg", J::s(cfg.describe())).set("run_seed", J::UInt(cfg.seed));
        shard.add_violations(vs, &replay);
    }
    let mut h = Hasher64::new();
    h.add_str(&cfg.describe());
    h.add((lost.min(1 << 20)) >> 6);
    (h.get(), lost > 0)
}

pub fn run_many(seed: u64, runs: u64, budget_ms: u64, small: bool, shard: &mut Shard) {
    let t0 = Instant::now();
    let mut rng = Rng::new(seed);
    let mut i = 0;
    while i < runs {
        if budget_ms != 0 && t0.elapsed().as_millis() as u64 > budget_ms {
            break;
        }
        let cfg = gen_cfg(&mut rng, small);
        let (sig, nontrivial) = run_once(&cfg, shard);
        shard.evaluations += 1;
        shard.distinct.insert(sig);
        if nontrivial {
            shard.nontrivial.insert(sig);
        }
        if shard.samples.len() < 2 {
            shard.samples.push(J::obj().set("cfg", J::s(cfg.describe())));
        }
        if shard.violations.len() >= 8 {
            break;
        }
        i += 1;
    }
}

// ---------------------------------------------------------------------------------------------
// mq-tight, mode "last-receiver": two long-lived worker threads are released together, one makes
// the last receiver leave, the other one does something that runs the memory manager (drops a
// sender clone, drops another stream, clones a sender); before that the retire list was filled to
// a seeded level, so that reclamation cycles start / complete inside the window. Afterwards no
// receiver exists and the surviving sender must be refused with Disconnected (C13); a stream that
// was left must not hold the sender back (C11). Plain u64 payloads and no per-call bookkeeping:
// tens of thousands of trials per second, the windows in question are a few instructions wide.

type Job = Box<dyn FnOnce() + Send>;

struct Worker {
    job: std::sync::Mutex<Option<Job>>,
    /// 0 idle, 1 armed, 2 ready (waiting for go), 3 done
    state: std::sync::atomic::AtomicU32,
    quit: AtomicBool,
}

fn worker_loop(w: Arc<Worker>, go: Arc<AtomicU64>, tid: u32) {
    hooks::thread_begin(tid, crate::conc::ROLE_CONSUMER, tid as u64, Policy::None, &[]);
    hist::set_enabled(false);
    let mut idle = 0u32;
    loop {
        if w.quit.load(SeqCst) {
            break;
        }
        if w.state.load(SeqCst) != 1 {
            idle += 1;
            if idle > 2000 {
                std::thread::yield_now();
            } else {
                std::hint::spin_loop();
            }
            continue;
        }
        idle = 0;
        let job = w.job.lock().unwrap().take();
        let g = go.load(SeqCst);
        w.state.store(2, SeqCst);
        let mut n = 0u64;
        while go.load(SeqCst) == g {
            n += 1;
            if cfg!(miri) || n > 200_000 {
                std::thread::yield_now();
            } else {
                std::hint::spin_loop();
            }
        }
        if let Some(j) = job {
            j();
        }
        hooks::flush_hits();
        w.state.store(3, SeqCst);
    }
    hooks::thread_end();
}

#[inline(never)]
fn skew(n: u64) {
    for _ in 0..n {
        std::hint::spin_loop();
    }
}

fn mm_hits() -> u64 {
    hooks::SITE_HITS[site::MM_DEALLOC as usize].load(SeqCst) + hooks::SITE_HITS[site::MM_EPOCH_BUMP as usize].load(SeqCst)
}

pub fn run_last_receiver(seed: u64, runs: u64, budget_ms: u64, small: bool, shard: &mut Shard) {
    let t0 = Instant::now();
    let mut rng = Rng::new(seed);
    hist::set_enabled(false);
    payload::set_pod_mode(false);
    hooks::thread_begin(0, crate::conc::ROLE_MAIN, seed, Policy::None, &[]);
    let go = Arc::new(AtomicU64::new(0));
    let workers: Vec<Arc<Worker>> = (0..2)
        .map(|_| {
            Arc::new(Worker {
                job: std::sync::Mutex::new(None),
                state: std::sync::atomic::AtomicU32::new(0),
                quit: AtomicBool::new(false),
            })
        })
        .collect();
    let joins: Vec<_> = workers
        .iter()
        .enumerate()
        .map(|(i, w)| {
            let (w, go) = (w.clone(), go.clone());
            std::thread::spawn(move || worker_loop(w, go, 1 + i as u32))
        })
        .collect();
    let mut trials = 0u64;
    let mut in_window = 0u64;
    let mut refused = 0u64;
    let per_run: u64 = if small { 2 } else { 2000 };
    let mut run = 0;
    'outer: while run < runs {
        if budget_ms != 0 && t0.elapsed().as_millis() as u64 > budget_ms {
            break;
        }
        let bro = rng.chance(2, 3);
        let cap = *rng.pick(&[1u64, 2, 4, 8]);
        let side = rng.below(4);
        let leave_by_unsub = rng.chance(1, 2);
        let mut sig = Hasher64::new();
        sig.add_str(&format!("last-receiver{}{}{}{}", bro, cap, side, leave_by_unsub));
        let mut window_here = false;
        for _ in 0..per_run {
            // retire-list level before the window: 0..8 stream add/drop rounds (about 3 retired
            // objects each; more than 20 start a cycle), then every live handle operates once so that
            // the cycle can complete on the next free()
            let rounds = rng.below(9);
            let refresh = rng.chance(3, 4);
            let (d0, d1) = (rng.below(120), rng.below(120));
            let mm0 = mm_hits();
            macro_rules! trial {
                ($tx:expr, $rx:expr, $stream:expr) => {{
                    let tx = $tx;
                    let rx = $rx;
                    let stream = $stream;
                    for _ in 0..rounds {
                        drop(stream(&rx, &tx));
                    }
                    let tx2 = tx.clone();
                    let other = if side == 1 { stream(&rx, &tx) } else { None };
                    if refresh {
                        let _ = tx.try_send(1);
                        let _ = tx2.try_send(2);
                        let _ = rx.try_recv();
                        let _ = rx.try_recv();
                        if let Some(o) = other.as_ref() {
                            let _ = o.try_recv();
                            let _ = o.try_recv();
                        }
                    }
                    // fill the ring: the stream that leaves is what refuses the sender
                    let mut filled = 0;
                    while tx.try_send(7).is_ok() {
                        filled += 1;
                        if filled > 64 {
                            break;
                        }
                    }
                    let a: Job = match side {
                        0 => Box::new(move || {
                            skew(d0);
                            drop(tx2);
                        }),
                        1 => {
                            let o = other;
                            Box::new(move || {
                                skew(d0);
                                drop(tx2);
                                drop(o);
                            })
                        }
                        2 => Box::new(move || {
                            skew(d0);
                            let c = tx2.clone();
                            drop(tx2);
                            drop(c);
                        }),
                        _ => Box::new(move || {
                            skew(d0);
                            let _ = tx2.try_send(9);
                            drop(tx2);
                        }),
                    };
                    let b: Job = Box::new(move || {
                        skew(d1);
                        if leave_by_unsub {
                            rx.unsubscribe();
                        } else {
                            drop(rx);
                        }
                    });
                    *workers[0].job.lock().unwrap() = Some(a);
                    *workers[1].job.lock().unwrap() = Some(b);
                    workers[0].state.store(1, SeqCst);
                    workers[1].state.store(1, SeqCst);
                    let mut n = 0u64;
                    while workers[0].state.load(SeqCst) != 2 || workers[1].state.load(SeqCst) != 2 {
                        n += 1;
                        if cfg!(miri) || n > 100_000 {
                            std::thread::yield_now();
                        }
                    }
                    go.fetch_add(1, SeqCst);
                    n = 0;
                    while workers[0].state.load(SeqCst) != 3 || workers[1].state.load(SeqCst) != 3 {
                        n += 1;
                        if cfg!(miri) || n > 100_000 {
                            std::thread::yield_now();
                        }
                    }
                    workers[0].state.store(0, SeqCst);
                    workers[1].state.store(0, SeqCst);
                    // no receiver handle exists any more
                    let r = match tx.try_send(11) {
                        Err(std::sync::mpsc::TrySendError::Disconnected(_)) => "Disconnected",
                        Err(std::sync::mpsc::TrySendError::Full(_)) => "Full",
                        Ok(()) => "Ok",
                    };
                    drop(tx);
                    r
                }};
            }
            let r = if bro {
                let (tx, rx) = mq::broadcast_queue_with::<u64, _>(cap, mq::wait::BusyWait::new());
                trial!(tx, rx, |rx: &mq::BroadcastReceiver<u64>, _tx: &mq::BroadcastSender<u64>| Some(rx.add_stream()))
            } else {
                // no add_stream on the plain mpmc receiver: three sender clones retire as much
                let (tx, rx) = mq::mpmc_queue_with::<u64, _>(cap, mq::wait::BusyWait::new());
                trial!(tx, rx, |_rx: &mq::MPMCReceiver<u64>, tx: &mq::MPMCSender<u64>| -> Option<mq::MPMCReceiver<u64>> {
                    for _ in 0..3 {
                        drop(tx.clone());
                    }
                    None
                })
            };
            trials += 1;
            if mm_hits() != mm0 {
                in_window += 1;
                window_here = true;
            }
            if r == "Disconnected" {
                refused += 1;
            } else {
                violation(
                    "C13,C11",
                    "no-receiver-send",
                    format!("no-receiver-send:after-racing-last-receiver:returns-{}", r),
                    format!(
                        "the last receiver left ({}) while another thread {} ; afterwards no receiver handle exists, yet try_send returned {} instead of Disconnected ({} cap={} stream add/drop rounds before={} handles operated before={} skew={}/{})",
                        if leave_by_unsub { "unsubscribe" } else { "drop" },
                        ["dropped a sender clone", "dropped a sender clone and the only other stream", "cloned and dropped senders", "sent through and dropped a sender clone"][side as usize],
                        r,
                        if bro { "broadcast" } else { "mpmc" },
                        cap,
                        rounds,
                        refresh,
                        d0,
                        d1
                    ),
                );
                let vs = payload::take_violations();
                let replay = J::obj()
                    .set("engine", J::s("tight-last-receiver"))
                    .set("cfg", J::s(format!("{} cap={} side={} unsub={} rounds={} refresh={} skew={}/{}", if bro { "broadcast" } else { "mpmc" }, cap, side, leave_by_unsub, rounds, refresh, d0, d1)));
                shard.add_violations(vs, &replay);
                if shard.violations.len() >= 4 {
                    break 'outer;
                }
            }
            if budget_ms != 0 && trials % 256 == 0 && t0.elapsed().as_millis() as u64 > budget_ms {
                break;
            }
        }
        shard.evaluations += 1;
        shard.distinct.insert(sig.get());
        if window_here {
            shard.nontrivial.insert(sig.get());
        }
        run += 1;
    }
    for w in &workers {
        w.quit.store(true, SeqCst);
    }
    for j in joins {
        let _ = j.join();
    }
    hooks::thread_end();
    hist::set_enabled(true);
    shard.stat("trials", trials);
    shard.stat("trials_in_which_a_reclamation_cycle_started_or_completed_inside_the_window", in_window);
    shard.stat("trials_refused_with_Disconnected", refused);
}

// ---------------------------------------------------------------------------------------------
// mq-tight, mode "handle-count": two long-lived threads clone and drop handles of the SAME stream
// (or sender handles of the same queue) at the same time, free-running, with seeded skew. The
// queue keeps a count of handles per stream and of senders; the counts are only visible through
// behaviour, and that is what is checked at quiescence afterwards:
//   receivers - while the stream still has handles it limits the senders (exactly N accepted);
//               of its last two handles exactly the second unsubscribe() says "last"; afterwards the
//               stream no longer limits anybody (N further sends accepted / Disconnected when it was
//               the only stream);
//   senders   - values sent concurrently by the two surviving handles all arrive exactly once, and
//               once they are dropped the receiver sees Disconnected, not Empty forever.

fn run_pair(workers: &[Arc<Worker>], go: &Arc<AtomicU64>, a: Job, b: Job) {
    *workers[0].job.lock().unwrap() = Some(a);
    *workers[1].job.lock().unwrap() = Some(b);
    workers[0].state.store(1, SeqCst);
    workers[1].state.store(1, SeqCst);
    let mut n = 0u64;
    while workers[0].state.load(SeqCst) != 2 || workers[1].state.load(SeqCst) != 2 {
        n += 1;
        if cfg!(miri) || n > 100_000 {
            std::thread::yield_now();
        }
    }
    go.fetch_add(1, SeqCst);
    n = 0;
    while workers[0].state.load(SeqCst) != 3 || workers[1].state.load(SeqCst) != 3 {
        n += 1;
        if cfg!(miri) || n > 100_000 {
            std::thread::yield_now();
        }
    }
    workers[0].state.store(0, SeqCst);
    workers[1].state.store(0, SeqCst);
}

pub fn run_handle_count(seed: u64, runs: u64, budget_ms: u64, small: bool, shard: &mut Shard) {
    use std::sync::mpsc::{TryRecvError, TrySendError};
    use std::sync::Mutex;
    let t0 = Instant::now();
    let mut rng = Rng::new(seed);
    hist::set_enabled(false);
    payload::set_pod_mode(false);
    hooks::thread_begin(0, crate::conc::ROLE_MAIN, seed, Policy::None, &[]);
    let go = Arc::new(AtomicU64::new(0));
    let workers: Vec<Arc<Worker>> = (0..2)
        .map(|_| {
            Arc::new(Worker {
                job: Mutex::new(None),
                state: std::sync::atomic::AtomicU32::new(0),
                quit: AtomicBool::new(false),
            })
        })
        .collect();
    let joins: Vec<_> = workers
        .iter()
        .enumerate()
        .map(|(i, w)| {
            let (w, go) = (w.clone(), go.clone());
            std::thread::spawn(move || worker_loop(w, go, 1 + i as u32))
        })
        .collect();
    let per_run: u64 = if small { 2 } else { 1000 };
    let mut trials = 0u64;
    let mut clones = 0u64;
    let mut run = 0;
    let mut report = |shard: &mut Shard, prop: &'static str, sig: &str, detail: String, cfg: &str| {
        violation(prop, "handle-count", format!("handle-count:{}", sig), format!("{} ({})", detail, cfg));
        let vs = payload::take_violations();
        let replay = J::obj().set("engine", J::s("tight-handle-count")).set("cfg", J::s(cfg));
        shard.add_violations(vs, &replay);
    };
    'outer: while run < runs {
        if budget_ms != 0 && t0.elapsed().as_millis() as u64 > budget_ms {
            break;
        }
        // a third kind of trial: one of two handles of a stream receives and leaves while its sibling
        // is inside a receive of its own (consumers 2 -> 1 in the middle of an operation)
        let sibling_leaves = rng.chance(1, 3);
        let side_rx = rng.chance(1, 2);
        let bro = rng.chance(2, 3);
        let cap = *rng.pick(&[1u64, 2, 4, 8]);
        let n_actual = cap.next_power_of_two();
        let mut sig = Hasher64::new();
        sig.add_str(&format!("handle-count{}{}{}{}", side_rx, bro, cap, sibling_leaves));
        for _ in 0..per_run {
            let (ka, kb) = (1 + rng.below(4), 1 + rng.below(4));
            let (d0, d1) = (rng.below(60), rng.below(60));
            let cfgd = format!(
                "{} {} cap={} clone/drop rounds={}/{} skew={}/{}",
                if bro { "broadcast" } else { "mpmc" },
                if side_rx { "receiver handles of one stream" } else { "sender handles" },
                cap,
                ka,
                kb,
                d0,
                d1
            );
            trials += 1;
            clones += ka + kb;
            macro_rules! storm {
                ($ha:expr, $hb:expr, $ty:ty) => {{
                    let sa: Arc<Mutex<Option<$ty>>> = Arc::new(Mutex::new(None));
                    let sb: Arc<Mutex<Option<$ty>>> = Arc::new(Mutex::new(None));
                    let (ha, hb) = ($ha, $hb);
                    let (sa2, sb2) = (sa.clone(), sb.clone());
                    let a: Job = Box::new(move || {
                        skew(d0);
                        for _ in 0..ka {
                            drop(ha.clone());
                        }
                        *sa2.lock().unwrap() = Some(ha);
                    });
                    let b: Job = Box::new(move || {
                        skew(d1);
                        for _ in 0..kb {
                            drop(hb.clone());
                        }
                        *sb2.lock().unwrap() = Some(hb);
                    });
                    run_pair(&workers, &go, a, b);
                    let x = sa.lock().unwrap().take().unwrap();
                    let y = sb.lock().unwrap().take().unwrap();
                    (x, y)
                }};
            }
            if sibling_leaves {
                let by_unsub = (ka + kb) % 2 == 0;
                macro_rules! leave {
                    ($tx:expr, $rx:expr, $ty:ty) => {{
                        let tx = $tx;
                        let rx = $rx;
                        for v in 1..=4u64 {
                            let _ = tx.try_send(v);
                        }
                        let r2 = rx.clone();
                        let back: Arc<Mutex<Option<$ty>>> = Arc::new(Mutex::new(None));
                        let got_a: Arc<Mutex<Vec<u64>>> = Arc::new(Mutex::new(Vec::new()));
                        let got_b: Arc<Mutex<Vec<u64>>> = Arc::new(Mutex::new(Vec::new()));
                        let (back2, ga, gb) = (back.clone(), got_a.clone(), got_b.clone());
                        let rounds = 1 + ka % 3;
                        let a: Job = Box::new(move || {
                            skew(d0);
                            for _ in 0..rounds {
                                if let Ok(v) = rx.try_recv() {
                                    ga.lock().unwrap().push(v);
                                }
                            }
                            *back2.lock().unwrap() = Some(rx);
                        });
                        let b: Job = Box::new(move || {
                            skew(d1);
                            if let Ok(v) = r2.try_recv() {
                                gb.lock().unwrap().push(v);
                            }
                            if by_unsub {
                                r2.unsubscribe();
                            } else {
                                drop(r2);
                            }
                        });
                        run_pair(&workers, &go, a, b);
                        let rx = back.lock().unwrap().take().unwrap();
                        let mut all: Vec<u64> = got_a.lock().unwrap().clone();
                        let from_a = all.clone();
                        let from_b = got_b.lock().unwrap().clone();
                        all.extend(from_b.iter());
                        while let Ok(v) = rx.try_recv() {
                            all.push(v);
                        }
                        drop(tx);
                        (all, from_a, from_b)
                    }};
                }
                let (mut all, from_a, from_b) = if bro {
                    let (tx, rx) = mq::broadcast_queue_with::<u64, _>(8, mq::wait::BusyWait::new());
                    leave!(tx, rx, mq::BroadcastReceiver<u64>)
                } else {
                    let (tx, rx) = mq::mpmc_queue_with::<u64, _>(8, mq::wait::BusyWait::new());
                    leave!(tx, rx, mq::MPMCReceiver<u64>)
                };
                all.sort();
                if all != vec![1, 2, 3, 4] {
                    report(shard, "C12,C01", "sibling-left-during-receive", format!("a stream held the values 1..4 and had two handles; one received once and left ({}) while the other was receiving: handle A got {:?}, the leaving handle got {:?}, and together with what was left afterwards the stream delivered {:?} instead of each value exactly once", if by_unsub { "unsubscribe" } else { "drop" }, from_a, from_b, all), &cfgd);
                }
            } else if side_rx && bro {
                let (tx, rx1) = mq::broadcast_queue_with::<u64, _>(cap, mq::wait::BusyWait::new());
                let h2a = rx1.add_stream();
                let h2b = h2a.clone();
                let (h2a, h2b) = storm!(h2a, h2b, mq::BroadcastReceiver<u64>);
                // the stream still has two handles and has consumed nothing: exactly N sends fit
                let mut accepted = 0u64;
                while accepted < 4 * n_actual + 4 && tx.try_send(accepted).is_ok() {
                    accepted += 1;
                }
                if accepted != n_actual {
                    report(shard, "C12,C06,C03", "stream-with-live-handles-does-not-limit", format!("after two threads cloned and dropped handles of one stream at the same time, {} sends were accepted although the stream (two live handles, nothing consumed) allows exactly N={}", accepted, n_actual), &cfgd);
                }
                let first = h2a.unsubscribe();
                let second = h2b.unsubscribe();
                if first || !second {
                    report(shard, "C12,C11,C06", "unsubscribe-says-last-wrongly", format!("the two remaining handles of the stream were unsubscribed one after the other and said last={} then last={} (expected false, true)", first, second), &cfgd);
                }
                // the other stream drains; the removed one must not hold anything back
                let mut drained = 0;
                while rx1.try_recv().is_ok() {
                    drained += 1;
                }
                let mut again = 0u64;
                while again < n_actual && tx.try_send(again).is_ok() {
                    again += 1;
                }
                if accepted == n_actual && again != n_actual {
                    report(shard, "C12,C06,C11", "removed-stream-still-limits", format!("every handle of the second stream is gone and the remaining stream is empty (drained {}), yet only {} of N={} sends were accepted", drained, again, n_actual), &cfgd);
                }
            } else if side_rx {
                let (tx, rx) = mq::mpmc_queue_with::<u64, _>(cap, mq::wait::BusyWait::new());
                let hb = rx.clone();
                let (ha, hb) = storm!(rx, hb, mq::MPMCReceiver<u64>);
                let mut accepted = 0u64;
                while accepted < 4 * n_actual + 4 && tx.try_send(accepted).is_ok() {
                    accepted += 1;
                }
                if accepted != n_actual {
                    report(shard, "C12,C06,C03", "stream-with-live-handles-does-not-limit", format!("{} sends were accepted although the stream (two live handles, nothing consumed) allows exactly N={}", accepted, n_actual), &cfgd);
                }
                let first = ha.unsubscribe();
                let second = hb.unsubscribe();
                if first || !second {
                    report(shard, "C12,C11,C06", "unsubscribe-says-last-wrongly", format!("the two remaining handles of the stream said last={} then last={} (expected false, true)", first, second), &cfgd);
                }
                match tx.try_send(99) {
                    Err(TrySendError::Disconnected(_)) => {}
                    other => {
                        report(shard, "C12,C13,C06", "no-receiver-send", format!("every receiver handle is gone, yet try_send returned {:?}", other.map_err(|e| match e { TrySendError::Full(_) => "Full", TrySendError::Disconnected(_) => "Disconnected" })), &cfgd);
                    }
                }
            } else {
                // sender handles; the ring is big enough for everything that is sent
                let m = 3u64;
                macro_rules! senders {
                    ($tx:expr, $rx:expr, $ty:ty) => {{
                        let tx = $tx;
                        let rx = $rx;
                        let tb = tx.clone();
                        let (ta, tb) = storm!(tx, tb, $ty);
                        // both surviving handles send at the same time
                        let a: Job = Box::new(move || {
                            skew(d1);
                            for i in 0..m {
                                let _ = ta.try_send(100 + i);
                            }
                            drop(ta);
                        });
                        let b: Job = Box::new(move || {
                            skew(d0);
                            for i in 0..m {
                                let _ = tb.try_send(200 + i);
                            }
                            drop(tb);
                        });
                        run_pair(&workers, &go, a, b);
                        let mut got = Vec::new();
                        let mut end = "Empty";
                        for _ in 0..(2 * m + 4) {
                            match rx.try_recv() {
                                Ok(v) => got.push(v),
                                Err(TryRecvError::Disconnected) => {
                                    end = "Disconnected";
                                    break;
                                }
                                Err(TryRecvError::Empty) => {
                                    end = "Empty";
                                    break;
                                }
                            }
                        }
                        (got, end)
                    }};
                }
                let (mut got, end) = if bro {
                    let (tx, rx) = mq::broadcast_queue_with::<u64, _>(16, mq::wait::BusyWait::new());
                    senders!(tx, rx, mq::BroadcastSender<u64>)
                } else {
                    let (tx, rx) = mq::mpmc_queue_with::<u64, _>(16, mq::wait::BusyWait::new());
                    senders!(tx, rx, mq::MPMCSender<u64>)
                };
                got.sort();
                let mut want: Vec<u64> = (0..m).map(|i| 100 + i).chain((0..m).map(|i| 200 + i)).collect();
                want.sort();
                if got != want {
                    report(shard, "C12,C01,C06", "concurrent-senders-lose-values", format!("after two threads cloned and dropped sender handles at the same time, the two surviving handles sent {:?} concurrently (every send fits into the ring) but the stream delivered {:?}", want, got), &cfgd);
                } else if end != "Disconnected" {
                    report(shard, "C12,C07,C06", "end-not-reported", format!("every sender handle has been dropped and every value was received, yet try_recv says {} instead of Disconnected", end), &cfgd);
                }
            }
            if shard.violations.len() >= 4 {
                break 'outer;
            }
            if budget_ms != 0 && trials % 256 == 0 && t0.elapsed().as_millis() as u64 > budget_ms {
                break;
            }
        }
        shard.evaluations += 1;
        shard.distinct.insert(sig.get());
        shard.nontrivial.insert(sig.get());
        run += 1;
    }
    for w in &workers {
        w.quit.store(true, SeqCst);
    }
    for j in joins {
        let _ = j.join();
    }
    hooks::thread_end();
    hist::set_enabled(true);
    shard.stat("trials", trials);
    shard.stat("concurrent_clone_drop_rounds", clones);
}

// ---------------------------------------------------------------------------------------------
// mq-tight, mode "plain-payload": the same free-running traffic over one shared stream, but with a
// payload type that has NO drop glue (plain data) and a hand-written Clone that reads the first
// half, dawdles for a seeded number of spins, reads the second half and compares. Whether a type
// needs dropping must not matter for C04: a consumer that is still copying a value out of a slot
// must never see the producer's next lap in it.

#[repr(C)]
pub struct Plain {
    a: u64,
    pad: [u64; 6],
    b: u64,
}

static PLAIN_TORN: AtomicU64 = AtomicU64::new(0);
static PLAIN_CLONES: AtomicU64 = AtomicU64::new(0);
static PLAIN_SLOW: AtomicU64 = AtomicU64::new(0);

impl Plain {
    fn new(id: u64) -> Plain {
        Plain { a: id, pad: [id; 6], b: id }
    }
}

impl Clone for Plain {
    fn clone(&self) -> Plain {
        // volatile: the two halves really are read at two different times
        let a = unsafe { std::ptr::read_volatile(&self.a) };
        let n = PLAIN_CLONES.fetch_add(1, std::sync::atomic::Ordering::Relaxed);
        if n % 8 == 0 {
            PLAIN_SLOW.fetch_add(1, std::sync::atomic::Ordering::Relaxed);
            skew(200 + (n % 1900));
            if n % 64 == 0 {
                std::thread::yield_now();
            }
        }
        let b = unsafe { std::ptr::read_volatile(&self.b) };
        let mid = unsafe { std::ptr::read_volatile(&self.pad[3]) };
        if a != b || a != mid {
            PLAIN_TORN.fetch_add(1, SeqCst);
        }
        Plain { a, pad: [mid; 6], b }
    }
}

pub fn run_plain(seed: u64, runs: u64, budget_ms: u64, small: bool, shard: &mut Shard) {
    let t0 = Instant::now();
    let mut rng = Rng::new(seed);
    hist::set_enabled(false);
    hooks::thread_begin(0, crate::conc::ROLE_MAIN, seed, Policy::None, &[]);
    let mut run = 0;
    while run < runs {
        if budget_ms != 0 && t0.elapsed().as_millis() as u64 > budget_ms {
            break;
        }
        let cap = *rng.pick(&[1u64, 2, 2, 4]);
        let producers = 1 + rng.below(2) as u32;
        let consumers = 2 + rng.below(3) as u32;
        let millis = if small { 5 } else { 200 + rng.below(500) };
        let cfgd = format!("plain-payload broadcast cap={} producers={} consumers-on-one-stream={} {}ms", cap, producers, consumers, millis);
        let lost_before = hooks::SITE_HITS[site::R_CAS_LOST as usize].load(SeqCst) + hooks::SITE_HITS[site::R_PIN_LOST as usize].load(SeqCst);
        let torn_before = PLAIN_TORN.load(SeqCst);
        let sh = Arc::new(Sh {
            go: AtomicBool::new(false),
            stop: AtomicBool::new(false),
            sent: AtomicU64::new(0),
            received: AtomicU64::new(0),
        });
        let (tx, rx) = mq::broadcast_queue_with::<Plain, _>(cap, mq::wait::BusyWait::new());
        let mut joins = Vec::new();
        let mut tid = 1u32;
        for p in 0..producers {
            let (t, sh) = (tx.clone(), sh.clone());
            let my = tid;
            joins.push(std::thread::spawn(move || {
                hooks::thread_begin(my, crate::conc::ROLE_PRODUCER, my as u64, Policy::None, &[]);
                hist::set_enabled(false);
                while !sh.go.load(SeqCst) {
                    std::thread::yield_now();
                }
                let mut id = ((p as u64 + 1) << 40) | 1;
                let mut n = 0u64;
                while !sh.stop.load(SeqCst) {
                    if t.try_send(Plain::new(id)).is_ok() {
                        id += 1;
                        n += 1;
                    } else {
                        std::hint::spin_loop();
                    }
                }
                sh.sent.fetch_add(n, SeqCst);
                drop(t);
                hooks::thread_end();
            }));
            tid += 1;
        }
        for _ in 0..consumers {
            let (r, sh) = (rx.clone(), sh.clone());
            let my = tid;
            joins.push(std::thread::spawn(move || {
                hooks::thread_begin(my, crate::conc::ROLE_CONSUMER, my as u64, Policy::None, &[]);
                hist::set_enabled(false);
                while !sh.go.load(SeqCst) {
                    std::thread::yield_now();
                }
                let mut n = 0u64;
                let mut bad = 0u64;
                while !sh.stop.load(SeqCst) {
                    if let Ok(v) = r.try_recv() {
                        if v.a != v.b || v.pad.iter().any(|x| *x != v.a) {
                            bad += 1;
                        }
                        n += 1;
                    }
                }
                sh.received.fetch_add(n, SeqCst);
                if bad > 0 {
                    PLAIN_TORN.fetch_add(bad, SeqCst);
                }
                drop(r);
                hooks::thread_end();
            }));
            tid += 1;
        }
        drop(tx);
        drop(rx);
        sh.go.store(true, SeqCst);
        let t1 = Instant::now();
        while t1.elapsed() < Duration::from_millis(millis) && PLAIN_TORN.load(SeqCst) == torn_before {
            if cfg!(miri) {
                std::thread::yield_now();
            } else {
                std::thread::sleep(Duration::from_millis(1));
            }
        }
        sh.stop.store(true, SeqCst);
        for j in joins {
            let _ = j.join();
        }
        let lost = hooks::SITE_HITS[site::R_CAS_LOST as usize].load(SeqCst) + hooks::SITE_HITS[site::R_PIN_LOST as usize].load(SeqCst) - lost_before;
        let torn = PLAIN_TORN.load(SeqCst) - torn_before;
        shard.stat("values_sent", sh.sent.load(SeqCst));
        shard.stat("values_received", sh.received.load(SeqCst));
        shard.stat("lost_position_races(R_CAS_LOST+R_PIN_LOST)", lost);
        if torn > 0 {
            violation(
                "C04",
                "payload-integrity",
                "payload-integrity:plain-payload-changed-while-being-cloned".to_string(),
                format!("{} clone(s) of a plain-data payload (no drop glue, hand-written slow Clone) saw the slot change between reading its first and its last field, or a delivered value was torn ({})", torn, cfgd),
            );
            let vs = payload::take_violations();
            let replay = J::obj().set("engine", J::s("tight-plain")).set("cfg", J::s(cfgd.clone()));
            shard.add_violations(vs, &replay);
        }
        let mut h = Hasher64::new();
        h.add_str(&cfgd);
        h.add((lost.min(1 << 20)) >> 6);
        shard.evaluations += 1;
        shard.distinct.insert(h.get());
        if lost > 0 {
            shard.nontrivial.insert(h.get());
        }
        if shard.violations.len() >= 4 {
            break;
        }
        run += 1;
    }
    hooks::thread_end();
    hist::set_enabled(true);
    shard.stat("clones", PLAIN_CLONES.load(SeqCst));
    shard.stat("slow_clones", PLAIN_SLOW.load(SeqCst));
}
