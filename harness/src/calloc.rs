//! Counting global allocator (C17): exact live bytes / blocks.
use std::alloc::{GlobalAlloc, Layout, System};
use std::sync::atomic::Ordering::Relaxed;
use std::sync::atomic::{AtomicI64, AtomicU64};

pub struct Counting;

pub static LIVE_BYTES: AtomicI64 = AtomicI64::new(0);
pub static LIVE_BLOCKS: AtomicI64 = AtomicI64::new(0);
pub static TOTAL_ALLOCS: AtomicU64 = AtomicU64::new(0);
/// live blocks per size (bytes, up to 511; larger ones in the last bucket) - diagnostics for growth reports
#[allow(clippy::declare_interior_mutable_const)]
const ZI: AtomicI64 = AtomicI64::new(0);
pub static BY_SIZE: [AtomicI64; 512] = [ZI; 512];

#[inline]
fn bucket(sz: usize) -> usize {
    sz.min(511)
}

pub fn size_histogram() -> Vec<i64> {
    BY_SIZE.iter().map(|a| a.load(Relaxed)).collect()
}

unsafe impl GlobalAlloc for Counting {
    unsafe fn alloc(&self, l: Layout) -> *mut u8 {
        let p = System.alloc(l);
        if !p.is_null() {
            LIVE_BYTES.fetch_add(l.size() as i64, Relaxed);
            LIVE_BLOCKS.fetch_add(1, Relaxed);
            TOTAL_ALLOCS.fetch_add(1, Relaxed);
            BY_SIZE[bucket(l.size())].fetch_add(1, Relaxed);
        }
        p
    }
    unsafe fn dealloc(&self, p: *mut u8, l: Layout) {
        LIVE_BYTES.fetch_sub(l.size() as i64, Relaxed);
        LIVE_BLOCKS.fetch_sub(1, Relaxed);
        BY_SIZE[bucket(l.size())].fetch_sub(1, Relaxed);
        System.dealloc(p, l)
    }
    unsafe fn alloc_zeroed(&self, l: Layout) -> *mut u8 {
        let p = System.alloc_zeroed(l);
        if !p.is_null() {
            LIVE_BYTES.fetch_add(l.size() as i64, Relaxed);
            LIVE_BLOCKS.fetch_add(1, Relaxed);
            TOTAL_ALLOCS.fetch_add(1, Relaxed);
            BY_SIZE[bucket(l.size())].fetch_add(1, Relaxed);
        }
        p
    }
    unsafe fn realloc(&self, p: *mut u8, l: Layout, new_size: usize) -> *mut u8 {
        let q = System.realloc(p, l, new_size);
        if !q.is_null() {
            LIVE_BYTES.fetch_add(new_size as i64 - l.size() as i64, Relaxed);
            BY_SIZE[bucket(l.size())].fetch_sub(1, Relaxed);
            BY_SIZE[bucket(new_size)].fetch_add(1, Relaxed);
        }
        q
    }
}

pub fn live() -> (i64, i64) {
    (LIVE_BYTES.load(Relaxed), LIVE_BLOCKS.load(Relaxed))
}
