//! Small deterministic PRNG (xorshift64*), one per thread / per run.
#[derive(Clone)]
pub struct Rng(pub u64);

impl Rng {
    pub fn new(seed: u64) -> Rng {
        // splitmix to avoid weak seeds
        let mut z = seed.wrapping_add(0x9E37_79B9_7F4A_7C15);
        z = (z ^ (z >> 30)).wrapping_mul(0xBF58_476D_1CE4_E5B9);
        z = (z ^ (z >> 27)).wrapping_mul(0x94D0_49BB_1331_11EB);
        z ^= z >> 31;
        Rng(if z == 0 { 0x1234_5678_9ABC_DEF1 } else { z })
    }
    #[inline]
    pub fn next(&mut self) -> u64 {
        let mut x = self.0;
        x ^= x >> 12;
        x ^= x << 25;
        x ^= x >> 27;
        self.0 = x;
        x.wrapping_mul(0x2545_F491_4F6C_DD1D)
    }
    /// uniform in 0..n (n > 0)
    #[inline]
    pub fn below(&mut self, n: u64) -> u64 {
        (self.next() >> 11) % n
    }
    #[inline]
    pub fn range(&mut self, lo: u64, hi_incl: u64) -> u64 {
        lo + self.below(hi_incl - lo + 1)
    }
    #[inline]
    pub fn chance(&mut self, num: u64, den: u64) -> bool {
        self.below(den) < num
    }
    pub fn pick<'a, T>(&mut self, xs: &'a [T]) -> &'a T {
        &xs[self.below(xs.len() as u64) as usize]
    }
    pub fn shuffle<T>(&mut self, xs: &mut [T]) {
        for i in (1..xs.len()).rev() {
            let j = self.below(i as u64 + 1) as usize;
            xs.swap(i, j);
        }
    }
    pub fn fork(&mut self, salt: u64) -> Rng {
        Rng::new(self.next() ^ salt.wrapping_mul(0xD6E8_FEB8_6659_FD93))
    }
}

/// FNV-1a style 64-bit hash combiner used for signatures
#[derive(Clone, Copy)]
pub struct Hasher64(pub u64);
impl Hasher64 {
    pub fn new() -> Hasher64 {
        Hasher64(0xcbf2_9ce4_8422_2325)
    }
    #[inline]
    pub fn add(&mut self, v: u64) {
        let mut h = self.0;
        for i in 0..8 {
            h ^= (v >> (i * 8)) & 0xff;
            h = h.wrapping_mul(0x0000_0100_0000_01B3);
        }
        self.0 = h;
    }
    pub fn add_str(&mut self, s: &str) {
        for b in s.bytes() {
            self.0 ^= b as u64;
            self.0 = self.0.wrapping_mul(0x0000_0100_0000_01B3);
        }
    }
    pub fn get(&self) -> u64 {
        self.0
    }
}
