//! mqv: runtime-monitoring harness for multiqueue2 (one binary, several engines).
#![allow(dead_code)]
mod api;
mod calloc;
mod checkers;
mod churn;
mod conc;
mod futx;
mod hist;
mod hooks;
mod model;
mod out;
mod payload;
mod report;
mod rng;
mod sendsync;
mod seq;
mod solo;
mod tight;
mod wake;

use std::collections::HashMap;

#[global_allocator]
static GLOBAL: calloc::Counting = calloc::Counting;

pub struct Args {
    pub engine: String,
    pub kv: HashMap<String, String>,
}

impl Args {
    pub fn get(&self, k: &str) -> Option<&str> {
        self.kv.get(k).map(|s| s.as_str())
    }
    pub fn u64(&self, k: &str, d: u64) -> u64 {
        if k == "seed" && self.get(k) == Some("auto") {
            // Under Miri (isolation on) std's RandomState is seeded from Miri's own seeded
            // generator, so with -Zmiri-many-seeds every seed gets its own workload seed and
            // -Zmiri-seed=N replays it exactly.
            use std::hash::{BuildHasher, Hasher};
            let mut h = std::collections::hash_map::RandomState::new().build_hasher();
            h.write_u64(0x6d71_7632);
            return h.finish() >> 1;
        }
        self.get(k).and_then(|v| v.parse().ok()).unwrap_or(d)
    }
    pub fn flag(&self, k: &str) -> bool {
        self.get(k).map(|v| v != "0" && v != "false").unwrap_or(false)
    }
    pub fn str(&self, k: &str, d: &str) -> String {
        self.get(k).unwrap_or(d).to_string()
    }
}

fn parse_args() -> Args {
    let mut it = std::env::args().skip(1);
    let engine = it.next().unwrap_or_else(|| "help".to_string());
    let mut kv = HashMap::new();
    let rest: Vec<String> = it.collect();
    let mut i = 0;
    while i < rest.len() {
        let a = &rest[i];
        if let Some(k) = a.strip_prefix("--") {
            if let Some(eq) = k.find('=') {
                kv.insert(k[..eq].to_string(), k[eq + 1..].to_string());
            } else if i + 1 < rest.len() && !rest[i + 1].starts_with("--") {
                kv.insert(k.to_string(), rest[i + 1].clone());
                i += 1;
            } else {
                kv.insert(k.to_string(), "1".to_string());
            }
        }
        i += 1;
    }
    Args { engine, kv }
}

fn write_out(args: &Args, shard: &report::Shard) {
    let mut j = shard.to_json();
    if let Some(e) = hooks::take_harness_error() {
        j.put("harness_error", out::J::s(e));
    }
    j.put("seed_used", out::J::UInt(args.u64("seed", 1)));
    let s = j.to_string();
    match args.get("out") {
        Some(p) => {
            std::fs::write(p, s).expect("write shard output");
        }
        None => {
            use std::io::Write;
            let line = format!("SHARDJSON {}\n", s);
            let so = std::io::stdout();
            let mut l = so.lock();
            let _ = l.write_all(line.as_bytes());
            let _ = l.flush();
        }
    }
    println!(
        "SHARD engine={} evaluations={} nontrivial={} violations={} inconclusive={}",
        shard.engine,
        shard.evaluations,
        shard.nontrivial.len(),
        shard.violations.len(),
        shard.inconclusive.len()
    );
}

fn main() {
    let args = parse_args();
    hooks::install();
    // The unguarded crate sleeps 100 ms before reporting NotReady. Natively that only wastes
    // time; under Miri's virtual clock the other threads would have to interpret 100 ms worth
    // of busy polling. The sleep has no bearing on any property, so both run with 0.
    hooks::set_fut_park_sleep_ms(args.u64("fut-sleep-ms", 0));
    // quiet panics: they are caught and classified by the harness
    if !args.flag("loud") {
        std::panic::set_hook(Box::new(|_| {}));
    }
    match args.engine.as_str() {
        "seq" => {
            let mut shard = report::Shard::new("mq-seq");
            let (si, sc) = match args.get("shard") {
                Some(s) => {
                    let mut p = s.split('/');
                    (
                        p.next().unwrap().parse().unwrap(),
                        p.next().unwrap().parse().unwrap(),
                    )
                }
                None => (0, 1),
            };
            let mut cfgs = seq::default_cfgs(args.flag("p6"));
            match args.str("cfgs", "all").as_str() {
                "plain" => cfgs.retain(|c| !c.fut),
                "fut" => cfgs.retain(|c| c.fut),
                "p6" => cfgs.retain(|c| c.allow_p6),
                "broadcast" => cfgs.retain(|c| c.fl == api::Flavour::Broadcast),
                "mpmc" => cfgs.retain(|c| c.fl == api::Flavour::Mpmc),
                _ => {}
            }
            if let Some(c) = args.get("cap") {
                let c: u64 = c.parse().unwrap();
                cfgs.retain(|x| x.cap == c);
            }
            let p = seq::SeqParams {
                seed: args.u64("seed", 1),
                runs: args.u64("runs", 1000),
                len: args.u64("len", 300) as usize,
                budget_ms: args.u64("budget-ms", 0),
                cfgs,
                perm_every: args.u64("perm-every", 16),
                exhaustive_depth: args.u64("depth", 4) as usize,
                shard_index: si,
                shard_count: sc,
            };
            shard.rule = "run = one call sequence executed call-by-call against the reference model then torn down in a chosen handle order; distinct = hash(configuration, every command and result, teardown order); non-trivial = the sequence reached Full at least once and delivered a value after the ring had wrapped (random mode) / reached Full or the end of stream (exhaustive mode)".to_string();
            let _guard = seq::hang::start(args.get("out").map(|s| s.to_string()), p.seed);
            if args.str("mode", "random") == "exhaustive" {
                seq::run_exhaustive(&p, &mut shard);
            } else {
                seq::run_random(&p, &mut shard);
            }
            write_out(&args, &shard);
        }
        "conc" => {
            let mut shard = report::Shard::new("mq-conc");
            let fams: Vec<conc::Family> = args
                .str("families", "steady")
                .split(',')
                .filter_map(conc::Family::parse)
                .collect();
            let p = conc::ConcParams {
                seed: args.u64("seed", 1),
                runs: args.u64("runs", 100),
                budget_ms: args.u64("budget-ms", 0),
                families: fams,
                opts: conc::GenOpts {
                    plan: args.get("plan").map(conc::parse_plan),
                    fl: match args.get("fl") {
                        Some("broadcast") => Some(api::Flavour::Broadcast),
                        Some("mpmc") => Some(api::Flavour::Mpmc),
                        _ => None,
                    },
                    fut: args.get("fut").map(|v| v == "1"),
                    small: args.flag("small"),
                    long: args.flag("long"),
                    policy: match args.get("policy") {
                        Some("none") => Some(hooks::Policy::None),
                        Some("yield") => Some(hooks::Policy::Yield),
                        Some("jitter") => Some(hooks::Policy::Jitter),
                        Some("stall") => Some(hooks::Policy::Stall),
                        _ => None,
                    },
                },
            };
            shard.rule = "run = one concurrent scenario (seeded configuration, scripts and stall plan) followed by the quiescent probe, a seeded teardown and the offline checkers; distinct = hash(configuration shape, per-event thread/op/result and number of overlapping operations of other threads); non-trivial = family rule (steady/view: ring wrapped and a send overlapped a receive; wrap-slow-clone: wrapped and another operation completed while a clone/closure was in progress; last-sender: the end was reported and sends overlapped receives; add-stream: the call overlapped a send (shared: and a sibling receive); remove-stream: a send was refused before the removal; handle-churn: a clone/drop overlapped traffic of another thread; quiesce: send/receive overlap; teardown: ring wrapped)".to_string();
            conc::run_many(&p, &mut shard);
            write_out(&args, &shard);
        }
        "solo" => {
            let mut shard = report::Shard::new("mq-solo");
            shard.rule = "case = one try operation executed by the only running thread while every other thread is frozen at a hook site; distinct = hash(operation, result, multiset of sites the other threads are frozen at, flavour); non-trivial = at least one other thread is frozen in the middle of an operation (not at an entry site)".to_string();
            solo::run_many(args.u64("seed", 1), args.u64("runs", 100), args.u64("budget-ms", 0), args.flag("small"), &mut shard);
            write_out(&args, &shard);
        }
        "tight" => {
            let mut shard = report::Shard::new("mq-tight");
            shard.rule = "run = 0.3-1 s of free-running traffic: 2-4 consumers on one shared stream of a queue with N in {1,2,4}, 1-2 producers, optional view stream, no injected delays and no per-call bookkeeping; distinct = hash(configuration, lost position races / 64); non-trivial = consumers really lost position races to each other (R_CAS_LOST / R_PIN_LOST sites hit)".to_string();
            if args.str("mode", "shared-stream") == "last-receiver" {
                shard.rule = "run = 2000 trials of one configuration (flavour, N, what the other thread does, drop or unsubscribe): two long-lived threads are released together with seeded skew, one makes the last receiver leave, the other one runs the memory manager (drops/clones senders, drops the other stream) after the retire list was filled to a seeded level; then try_send must say Disconnected; distinct = configuration; non-trivial = a reclamation cycle started or completed (MM_EPOCH_BUMP / MM_DEALLOC sites) inside the window in at least one trial".to_string();
                tight::run_last_receiver(args.u64("seed", 1), args.u64("runs", 100), args.u64("budget-ms", 0), args.flag("small"), &mut shard);
            } else if args.str("mode", "shared-stream") == "plain-payload" {
                shard.rule = "run = 0.2-0.7 s of free-running traffic with a plain-data payload (no drop glue) whose hand-written Clone reads the first field, dawdles (every 8th clone, 0.2-2 k spins) and reads the last field: 2-4 consumers on one shared stream of a queue with N in {1,2,4}, 1-2 producers; distinct = hash(configuration, lost position races / 64); non-trivial = consumers really lost position races to each other".to_string();
                tight::run_plain(args.u64("seed", 1), args.u64("runs", 100), args.u64("budget-ms", 0), args.flag("small"), &mut shard);
            } else if args.str("mode", "shared-stream") == "handle-count" {
                shard.rule = "run = 1000 trials of one configuration (receiver or sender handles, flavour, N): two long-lived threads clone and drop handles of the same stream / of the same queue at the same time with seeded skew, then the handle counts are read back through behaviour at quiescence (capacity while the stream has handles, which unsubscribe() says 'last', no limit afterwards; no value lost between the surviving senders, Disconnected after the last one); distinct = configuration; every run is non-trivial".to_string();
                tight::run_handle_count(args.u64("seed", 1), args.u64("runs", 100), args.u64("budget-ms", 0), args.flag("small"), &mut shard);
            } else {
                tight::run_many(args.u64("seed", 1), args.u64("runs", 100), args.u64("budget-ms", 0), args.flag("small"), &mut shard);
            }
            write_out(&args, &shard);
        }
        "sendsync" => {
            let mut shard = report::Shard::new("mq-sendsync");
            shard.rule = "case = one (handle type, payload class, closure class) instantiation whose Send/Sync answers are read from the compiler at run time; non-trivial = a cell whose required answer is 'not Send'".to_string();
            sendsync::run(&mut shard);
            write_out(&args, &shard);
        }
        "churn" => {
            let mut shard = report::Shard::new("mq-churn");
            let seed = args.u64("seed", 1);
            let runs = args.u64("runs", 100);
            let budget = args.u64("budget-ms", 0);
            match args.str("mode", "teardown").as_str() {
                "teardown" => {
                    shard.rule = "run = one scripted queue life (random API calls over all handle families) ending in a seeded teardown order, executed once as warm-up and once measured with the counting allocator; distinct = hash(configuration, commands, results, teardown order); non-trivial = more than 20 calls and at least two handles alive at teardown".to_string();
                    churn::run_teardown(seed, runs, budget, &mut shard);
                }
                "growth" => {
                    shard.rule = "run = a fixed pair of operating handles plus N add_stream/clone/drop/into_single cycles (N in 10^2..10^5), live bytes sampled every 64 cycles after a 64-cycle warm-up; distinct = (flavour, futures?, capacity, with/without non-last handle drops, N); every run is non-trivial".to_string();
                    churn::run_growth(seed, runs, budget, args.u64("max-cycles", 100_000), &mut shard);
                }
                _ => {
                    shard.rule = "run = writers, readers and churners (add_stream/clone/drop cycles on their own parent stream) running concurrently with stalls inside the writer's stream-list scan and inside the reclamation code; distinct = hash(configuration, deferred frees executed / 16); non-trivial = at least 100 deferred frees (20 under Miri) were executed while writers were scanning, or - for runs with idle handles that never operate - every churn cycle completed".to_string();
                    let fl = match args.get("fl") {
                        Some("broadcast") => Some(api::Flavour::Broadcast),
                        Some("mpmc") => Some(api::Flavour::Mpmc),
                        _ => None,
                    };
                    churn::run_stress_many(seed, runs, budget, args.flag("small"), args.flag("measure-growth"), fl, &mut shard);
                }
            }
            write_out(&args, &shard);
        }
        "fut" => {
            futx::CROWD_BIAS.store(args.flag("crowd"), std::sync::atomic::Ordering::SeqCst);
            let mut shard = report::Shard::new("mq-fut");
            shard.rule = "run = one futures scenario driven by the harness executor (tasks are polled only when notified) until global quiescence, then every parked task is probe-polled; distinct = hash(configuration shape, per-event thread and result); non-trivial = at least one poll/start_send returned NotReady (a task really parked)".to_string();
            futx::run_many(args.u64("seed", 1), args.u64("runs", 100), args.u64("budget-ms", 0), args.flag("small"), &mut shard);
            write_out(&args, &shard);
        }
        "wake" => {
            let mut shard = report::Shard::new("mq-wake");
            shard.rule = "run = one scenario in which consumers block in recv/recv_view/iterator and leave after their quota while producers send exactly the values needed and then stay alive idle; distinct = hash(configuration shape, per-consumer number of wait() entries and values received, result sequence); non-trivial = at least one consumer really entered Wait::wait and was woken to receive a value".to_string();
            wake::run_many(args.u64("seed", 1), args.u64("runs", 100), args.u64("budget-ms", 0), args.flag("small"), &mut shard);
            write_out(&args, &shard);
        }
        _ => {
            eprintln!("usage: mqv <seq|conc|wake|fut|churn|solo|sendsync> [--key value]...");
            std::process::exit(2);
        }
    }
}
