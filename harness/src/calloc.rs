//! Counting global allocator (C17): exact live bytes / blocks.
use std::alloc::{GlobalAlloc, Layout, System};
use std::sync::atomic::Ordering::Relaxed;
use std::sync::atomic::{AtomicI64, AtomicU64};

pub struct Counting;

pub static LIVE_BYTES: AtomicI64 = AtomicI64::new(0);
pub static LIVE_BLOCKS: AtomicI64 = AtomicI64::new(0);
pub static TOTAL_ALLOCS: AtomicU64 = AtomicU64::new(0);

unsafe impl GlobalAlloc for Counting {
    unsafe fn alloc(&self, l: Layout) -> *mut u8 {
        let p = System.alloc(l);
        if !p.is_null() {
            LIVE_BYTES.fetch_add(l.size() as i64, Relaxed);
            LIVE_BLOCKS.fetch_add(1, Relaxed);
            TOTAL_ALLOCS.fetch_add(1, Relaxed);
        }
        p
    }
    unsafe fn dealloc(&self, p: *mut u8, l: Layout) {
        LIVE_BYTES.fetch_sub(l.size() as i64, Relaxed);
        LIVE_BLOCKS.fetch_sub(1, Relaxed);
        System.dealloc(p, l)
    }
    unsafe fn alloc_zeroed(&self, l: Layout) -> *mut u8 {
        let p = System.alloc_zeroed(l);
        if !p.is_null() {
            LIVE_BYTES.fetch_add(l.size() as i64, Relaxed);
            LIVE_BLOCKS.fetch_add(1, Relaxed);
            TOTAL_ALLOCS.fetch_add(1, Relaxed);
        }
        p
    }
    unsafe fn realloc(&self, p: *mut u8, l: Layout, new_size: usize) -> *mut u8 {
        let q = System.realloc(p, l, new_size);
        if !q.is_null() {
            LIVE_BYTES.fetch_add(new_size as i64 - l.size() as i64, Relaxed);
        }
        q
    }
}

pub fn live() -> (i64, i64) {
    (LIVE_BYTES.load(Relaxed), LIVE_BLOCKS.load(Relaxed))
}
