//! mq-solo (C18): try operations never wait for another thread. A fault-injection
//! workload: at a seeded logical time every thread but one is frozen at whatever hook
//! site it reaches next (mid-claim, mid-publish, mid-pin, mid-scan, ...); the survivor
//! performs single try operations alone and its own steps (hook sites passed) are counted.
use std::os::unix::thread::JoinHandleExt;
use std::sync::atomic::Ordering::SeqCst;
use std::sync::atomic::{AtomicBool, AtomicU32, AtomicU64};
use std::sync::Arc;
use std::time::{Duration, Instant};

use crate::api::{self, Flavour, RecvKind, RecvOut, RxH, SendOut, TxH, WaitKind};
use crate::hist;
use crate::hooks::{self, site, Policy};
use crate::out::J;
use crate::payload::{self, violation};
use crate::report::Shard;
use crate::rng::{Hasher64, Rng};

pub const STEP_BOUND: u64 = 10_000;

struct Shared {
    go: AtomicBool,
    stop: AtomicBool,
    /// solo thread: 0 idle, 1 an operation is in progress
    solo_busy: AtomicU32,
    solo_op_no: AtomicU64,
    solo_done: AtomicBool,
    spin_flagged: AtomicBool,
    /// kernel thread id of the solo thread (to read its scheduler state)
    solo_ktid: AtomicU64,
    churn_cycles: AtomicU64,
}

/// scheduler state letter of a thread of this process (R running, S sleeping, D disk sleep, ...)
pub fn solo_state(ktid: u64) -> Option<char> {
    if ktid == 0 {
        return None;
    }
    let s = std::fs::read_to_string(format!("/proc/self/task/{}/stat", ktid)).ok()?;
    // pid (comm) state ...
    let close = s.rfind(')')?;
    s[close + 1..].trim_start().chars().next()
}

pub fn thread_cpu_ns(pt: libc::pthread_t) -> Option<u64> {
    unsafe {
        let mut cid: libc::clockid_t = 0;
        if libc::pthread_getcpuclockid(pt, &mut cid) != 0 {
            return None;
        }
        let mut ts = libc::timespec { tv_sec: 0, tv_nsec: 0 };
        if libc::clock_gettime(cid, &mut ts) != 0 {
            return None;
        }
        Some(ts.tv_sec as u64 * 1_000_000_000 + ts.tv_nsec as u64)
    }
}

#[derive(Clone, Debug)]
pub struct SoloCfg {
    pub fl: Flavour,
    pub cap: u64,
    pub wait: WaitKind,
    pub producers: u32,
    pub shared_consumers: u32,
    pub extra_streams: u32,
    /// a thread that keeps adding/removing streams and cloning/dropping handles, so that reclamation
    /// cycles run and the other threads can be frozen while they hold the memory manager's locks
    pub churner: bool,
    pub freezes: u32,
    pub policy: Policy,
    pub seed: u64,
}

impl SoloCfg {
    pub fn describe(&self) -> String {
        format!(
            "solo {} cap={} wait={} P={} shared_consumers={} extra_streams={} churner={} freezes={} policy={}",
            self.fl.name(),
            self.cap,
            self.wait.name(),
            self.producers,
            self.shared_consumers,
            self.extra_streams,
            self.churner,
            self.freezes,
            self.policy.name()
        )
    }
}

pub fn gen_cfg(rng: &mut Rng, small: bool) -> SoloCfg {
    let fl = if rng.chance(2, 3) { Flavour::Broadcast } else { Flavour::Mpmc };
    SoloCfg {
        fl,
        cap: *rng.pick(&[1u64, 2, 4, 8]),
        wait: if rng.chance(1, 2) { WaitKind::Busy } else { WaitKind::Yield(2, 2) },
        producers: 1 + rng.below(2) as u32,
        shared_consumers: 1 + rng.below(2) as u32,
        extra_streams: if fl == Flavour::Broadcast { rng.below(2) as u32 } else { 0 },
        churner: rng.chance(2, 3),
        freezes: if small { 2 } else { 4 + rng.below(6) as u32 },
        policy: if rng.chance(1, 2) { Policy::Yield } else { Policy::None },
        seed: rng.next(),
    }
}

fn mid_op_site(s: u32) -> bool {
    !(s == site::TS_ENTRY || s == site::R_POS || s == site::SS_HEAD || s == site::SM_HEAD || s == site::V_TAG || s == u32::MAX)
}

pub fn run_once(cfg: &SoloCfg, shard: &mut Shard) -> (Vec<u64>, bool) {
    payload::reset_ledger();
    api::reset_ids();
    hist::clock_reset();
    hist::set_enabled(false);
    let mut rng = Rng::new(cfg.seed);
    hooks::thread_begin(0, crate::conc::ROLE_MAIN, cfg.seed, Policy::None, &[]);
    let (tx0, rx0) = api::create(cfg.fl, false, cfg.cap, cfg.wait, None);
    let sh = Arc::new(Shared {
        go: AtomicBool::new(false),
        stop: AtomicBool::new(false),
        solo_busy: AtomicU32::new(0),
        solo_op_no: AtomicU64::new(0),
        solo_done: AtomicBool::new(false),
        spin_flagged: AtomicBool::new(false),
        solo_ktid: AtomicU64::new(0),
        churn_cycles: AtomicU64::new(0),
    });
    let mut joins = Vec::new();
    let mut tid = 1u32;
    let mut workers = 0u32;
    // consumers of the base stream (shared), plus one consumer per extra stream
    let mut consumer_handles: Vec<RxH> = Vec::new();
    for _ in 0..cfg.shared_consumers {
        consumer_handles.push(rx0.clone_rx().expect("clone"));
    }
    for _ in 0..cfg.extra_streams {
        let mut r = rx0.add_stream(false).expect("add_stream");
        if rng.chance(1, 2) {
            r.into_single();
        }
        consumer_handles.push(r);
    }
    // the solo thread's own handles: a sender clone, a handle on the shared stream, and (broadcast)
    // a single-consumer receiver on its own stream
    let solo_tx = tx0.clone_tx();
    let solo_shared_rx = rx0.clone_rx().expect("clone");
    let solo_uni_rx = if cfg.fl == Flavour::Broadcast {
        let mut r = rx0.add_stream(false).expect("add_stream");
        r.into_single();
        Some(r)
    } else {
        None
    };
    let mut producer_handles = Vec::new();
    for _ in 0..cfg.producers {
        producer_handles.push(tx0.clone_tx());
    }
    for tx in producer_handles {
        let sh = sh.clone();
        let seed = rng.next();
        let policy = cfg.policy;
        let my = tid;
        workers += 1;
        joins.push(std::thread::spawn(move || {
            hooks::thread_begin(my, crate::conc::ROLE_PRODUCER, seed, policy, &[]);
            hist::set_enabled(false);
            while !sh.go.load(SeqCst) {
                std::thread::yield_now();
            }
            let mut id = (my as u64) << 40;
            while !sh.stop.load(SeqCst) {
                tx.try_send(id);
                id += 1;
            }
            tx.drop_tx(false);
            hooks::thread_end();
        }));
        tid += 1;
    }
    for mut rx in consumer_handles {
        let sh = sh.clone();
        let seed = rng.next();
        let policy = cfg.policy;
        let my = tid;
        workers += 1;
        joins.push(std::thread::spawn(move || {
            hooks::thread_begin(my, crate::conc::ROLE_CONSUMER, seed, policy, &[]);
            hist::set_enabled(false);
            let mut r = Rng::new(seed);
            while !sh.go.load(SeqCst) {
                std::thread::yield_now();
            }
            while !sh.stop.load(SeqCst) {
                let k = if rx.is_uni() && r.chance(1, 2) { RecvKind::TryView } else { RecvKind::TryRecv };
                rx.recv_kind(k);
            }
            rx.drop_rx();
            hooks::thread_end();
        }));
        tid += 1;
    }
    if cfg.churner {
        let ctx = tx0.clone_tx();
        let mut crx = if cfg.fl == Flavour::Broadcast {
            rx0.add_stream(false).expect("add_stream")
        } else {
            rx0.clone_rx().expect("clone")
        };
        let sh = sh.clone();
        let seed = rng.next();
        let policy = cfg.policy;
        let my = tid;
        let fl = cfg.fl;
        workers += 1;
        joins.push(std::thread::spawn(move || {
            hooks::thread_begin(my, crate::conc::ROLE_AUX, seed, policy, &[]);
            hist::set_enabled(false);
            let mut r = Rng::new(seed);
            while !sh.go.load(SeqCst) {
                std::thread::yield_now();
            }
            let mut id = (my as u64) << 40;
            while !sh.stop.load(SeqCst) {
                match r.below(3) {
                    0 if fl == Flavour::Broadcast => {
                        if let Some(n) = crx.add_stream(false) {
                            n.drop_rx();
                        }
                    }
                    1 => {
                        if let Some(n) = crx.clone_rx() {
                            n.drop_rx();
                        }
                    }
                    _ => {
                        let n = ctx.clone_tx();
                        n.try_send(id);
                        id += 1;
                        n.drop_tx(false);
                    }
                }
                crx.recv_kind(RecvKind::TryRecv);
                sh.churn_cycles.fetch_add(1, SeqCst);
            }
            ctx.drop_tx(false);
            crx.drop_rx();
            hooks::thread_end();
        }));
        tid += 1;
    }
    // ---- the solo thread
    let solo_tid = tid;
    let results: Arc<std::sync::Mutex<Vec<(String, String, u64, Vec<u32>)>>> = Arc::new(std::sync::Mutex::new(Vec::new()));
    let res2 = results.clone();
    let incon: Arc<std::sync::Mutex<Vec<String>>> = Arc::new(std::sync::Mutex::new(Vec::new()));
    let incon2 = incon.clone();
    let shs = sh.clone();
    let freezes = cfg.freezes;
    let solo_seed = rng.next();
    let nworkers = workers;
    let solo = std::thread::spawn(move || {
        hooks::thread_begin(solo_tid, crate::conc::ROLE_AUX, solo_seed, Policy::None, &[]);
        hist::set_enabled(false);
        if !cfg!(miri) {
            shs.solo_ktid.store(unsafe { libc::syscall(libc::SYS_gettid) } as u64, SeqCst);
        }
        let mut r = Rng::new(solo_seed);
        let mut srx = solo_shared_rx;
        let mut urx = solo_uni_rx;
        while !shs.go.load(SeqCst) {
            std::thread::yield_now();
        }
        let mut id = (solo_tid as u64) << 40;
        for _ in 0..freezes {
            // let the others run for a random while
            let spin = 50 + r.below(3000);
            for _ in 0..spin {
                std::hint::spin_loop();
            }
            if r.chance(1, 2) {
                std::thread::yield_now();
            }
            hooks::freeze_others(solo_tid);
            let t0 = Instant::now();
            let mut ok = true;
            while hooks::frozen_count() < nworkers {
                std::thread::yield_now();
                if !cfg!(miri) && t0.elapsed() > Duration::from_secs(10) {
                    ok = false;
                    break;
                }
            }
            if !ok {
                incon2.lock().unwrap().push("not every thread reached a hook site within the watchdog".into());
                hooks::release_all();
                break;
            }
            let frozen_sites: Vec<u32> = (1..=nworkers).map(|t| hooks::FROZEN_AT[t as usize].load(SeqCst)).collect();
            // every other thread is suspended in the middle of whatever it was doing: run alone
            let nops = 1 + r.below(4);
            for _ in 0..nops {
                let which = r.below(4);
                shs.solo_op_no.fetch_add(1, SeqCst);
                shs.solo_busy.store(1, SeqCst);
                let (name, out, steps) = match which {
                    0 => {
                        let o = solo_tx.try_send(id);
                        id += 1;
                        ("try_send", format!("{:?}", o), hooks::op_end())
                    }
                    1 => {
                        let o = srx.recv_kind(RecvKind::TryRecv);
                        ("try_recv(shared stream)", format!("{:?}", o.res()), hooks::op_end())
                    }
                    2 => match urx.as_mut() {
                        Some(u) => {
                            let o = u.recv_kind(RecvKind::TryView);
                            ("try_recv_view", format!("{:?}", o.res()), hooks::op_end())
                        }
                        None => {
                            let o = srx.recv_kind(RecvKind::TryIter);
                            ("try_iter.next", format!("{:?}", o.res()), hooks::op_end())
                        }
                    },
                    _ => match urx.as_mut() {
                        Some(u) => {
                            let o = u.recv_kind(RecvKind::TryRecv);
                            ("try_recv(own stream)", format!("{:?}", o.res()), hooks::op_end())
                        }
                        None => {
                            let o = solo_tx.try_send(id);
                            id += 1;
                            ("try_send", format!("{:?}", o), hooks::op_end())
                        }
                    },
                };
                shs.solo_busy.store(0, SeqCst);
                res2.lock().unwrap().push((name.to_string(), out, steps, frozen_sites.clone()));
            }
            hooks::release_all();
        }
        shs.solo_done.store(true, SeqCst);
        // keep the own handles drained until the end so that the producers are not blocked forever
        while !shs.stop.load(SeqCst) {
            srx.recv_kind(RecvKind::TryRecv);
            if let Some(u) = urx.as_mut() {
                u.recv_kind(RecvKind::TryRecv);
            }
        }
        solo_tx.drop_tx(false);
        srx.drop_rx();
        if let Some(u) = urx {
            u.drop_rx();
        }
        hooks::thread_end();
    });
    let solo_pt = solo.as_pthread_t();
    api::STEP_LIMIT.store(STEP_BOUND, SeqCst);
    sh.go.store(true, SeqCst);
    // ---- supervise: own-CPU-time bound for a solo operation (catches spins that pass no hook site)
    let t0 = Instant::now();
    let mut last_op = u64::MAX;
    let mut cpu_at_op_start = 0u64;
    let mut cpu_last = 0u64;
    let mut asleep_samples = 0u32;
    let rx0 = rx0;
    while !sh.solo_done.load(SeqCst) {
        if !cfg!(miri) {
            std::thread::sleep(Duration::from_micros(500));
        } else {
            std::thread::yield_now();
        }
        // main keeps its own handle of the base stream drained (it is not registered as a worker,
        // and must not touch the queue while a freeze is active)

        if !cfg!(miri) {
            let op = sh.solo_op_no.load(SeqCst);
            if sh.solo_busy.load(SeqCst) == 1 && hooks::freeze_active() {
                if let Some(cpu) = thread_cpu_ns(solo_pt) {
                    if op != last_op {
                        last_op = op;
                        cpu_at_op_start = cpu;
                        asleep_samples = 0;
                        cpu_last = cpu;
                    } else if cpu == cpu_last && solo_state(sh.solo_ktid.load(SeqCst)) == Some('S') {
                        // same operation, no CPU consumed since the last sample, sleeping in the kernel:
                        // it is blocked on something only another (frozen) thread can release
                        asleep_samples += 1;
                        if asleep_samples >= 40 && !sh.spin_flagged.swap(true, SeqCst) {
                            let sites: Vec<String> = (1..=workers)
                                .map(|t| hooks::site_name(hooks::FROZEN_AT[t as usize].load(SeqCst)).to_string())
                                .collect();
                            violation(
                                "C18",
                                "solo-op-blocks",
                                "solo-op-blocks:asleep-in-kernel".to_string(),
                                format!(
                                    "a single try operation, run alone while every other thread was suspended at {:?}, went to sleep in the kernel (blocked on a lock or condition) and stayed there for 40 consecutive samples without consuming any CPU: it waits for another thread",
                                    sites
                                ),
                            );
                            hooks::release_all();
                        }
                    } else if cpu - cpu_at_op_start > 2_000_000_000 && !sh.spin_flagged.swap(true, SeqCst) {
                        let sites: Vec<String> = (1..=workers)
                            .map(|t| hooks::site_name(hooks::FROZEN_AT[t as usize].load(SeqCst)).to_string())
                            .collect();
                        violation(
                            "C18",
                            "solo-op-spins",
                            "solo-op-spins:cpu-time".to_string(),
                            format!(
                                "a single try operation, run alone while every other thread was suspended at {:?}, consumed more than 2 s of its own CPU time without returning (a correct one needs microseconds): it is waiting for another thread",
                                sites
                            ),
                        );
                        // let the others continue so that the run can end
                        hooks::release_all();
                    }
                }
            }
            if let Some(cpu) = thread_cpu_ns(solo_pt) {
                if cpu != cpu_last {
                    asleep_samples = 0;
                }
                cpu_last = cpu;
            }
            if t0.elapsed() > Duration::from_secs(60) {
                incon.lock().unwrap().push("solo scenario exceeded the wall-clock watchdog".into());
                hooks::release_all();
                break;
            }
        }
    }
    sh.stop.store(true, SeqCst);
    hooks::release_all();
    let _ = solo.join();
    for j in joins {
        let _ = j.join();
    }
    api::STEP_LIMIT.store(0, SeqCst);
    tx0.drop_tx(false);
    rx0.drop_rx();
    hooks::thread_end();
    hist::set_enabled(true);
    for m in incon.lock().unwrap().drain(..) {
        shard.inconclusive.push(format!("{}: {}", m, cfg.describe()));
    }
    // ---- evaluate
    let mut sigs = Vec::new();
    let mut nontrivial = false;
    let mut max_steps = 0;
    for (name, out, steps, sites) in results.lock().unwrap().iter() {
        max_steps = max_steps.max(*steps);
        let mut h = Hasher64::new();
        h.add_str(name);
        h.add_str(out);
        let mut ss: Vec<u32> = sites.clone();
        ss.sort_unstable();
        for s in &ss {
            h.add(*s as u64);
            shard.stat(&format!("frozen_at:{}", hooks::site_name(*s)), 1);
        }
        h.add_str(cfg.fl.name());
        sigs.push(h.get());
        if sites.iter().any(|s| mid_op_site(*s)) {
            nontrivial = true;
            shard.nontrivial.insert(h.get());
        }
        shard.distinct.insert(h.get());
        shard.stat(&format!("solo_op:{}", name), 1);
        shard.stat(&format!("solo_result:{}", out.split('(').next().unwrap_or("")), 1);
        if shard.samples.len() < 3 && sites.iter().any(|s| mid_op_site(*s)) {
            shard.samples.push(
                J::obj()
                    .set("cfg", J::s(cfg.describe()))
                    .set("others_frozen_at", J::Arr(sites.iter().map(|s| J::s(hooks::site_name(*s))).collect()))
                    .set("solo_operation", J::s(name.clone()))
                    .set("result", J::s(out.clone()))
                    .set("own_steps", J::UInt(*steps)),
            );
        }
    }
    shard.stat_max("max_own_steps_of_a_solo_op", max_steps);
    shard.stat("solo_ops", results.lock().unwrap().len() as u64);
    shard.stat("churn_cycles_in_background", sh.churn_cycles.load(SeqCst));
    let vs = payload::take_violations();
    if !vs.is_empty() {
        let replay = J::obj().set("engine", J::s("solo")).set("cfg", J::s(cfg.describe())).set("run_seed", J::UInt(cfg.seed));
        // only C18 rules are meaningful here (no history is recorded in this engine)
        let vs: Vec<_> = vs.into_iter().filter(|v| v.prop.contains("C18")).collect();
        shard.add_violations(vs, &replay);
    }
    payload::reset_ledger();
    (sigs, nontrivial)
}

pub fn run_many(seed: u64, runs: u64, budget_ms: u64, small: bool, shard: &mut Shard) {
    let t0 = Instant::now();
    let mut rng = Rng::new(seed);
    let mut i = 0;
    while i < runs {
        if budget_ms != 0 && t0.elapsed().as_millis() as u64 > budget_ms {
            break;
        }
        let cfg = gen_cfg(&mut rng, small);
        let (sigs, _nt) = run_once(&cfg, shard);
        // one case = one solo operation
        shard.evaluations += sigs.len() as u64;
        shard.stat("scenarios", 1);
        if shard.violations.len() >= 8 || !shard.inconclusive.is_empty() {
            break;
        }
        i += 1;
    }
}
