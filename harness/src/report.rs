//! Per-shard result accumulation, written as one JSON file per shard.
use std::collections::{BTreeMap, BTreeSet};

use crate::hooks;
use crate::out::J;
use crate::payload::Violation;

pub struct VioOut {
    pub v: Violation,
    pub replay: J,
}

#[derive(Default)]
pub struct Shard {
    pub engine: String,
    pub evaluations: u64,
    /// signatures of runs that are non-trivial by the engine's rule
    pub nontrivial: BTreeSet<u64>,
    /// signatures of all runs
    pub distinct: BTreeSet<u64>,
    pub violations: Vec<VioOut>,
    pub samples: Vec<J>,
    pub stats: BTreeMap<String, u64>,
    pub inconclusive: Vec<String>,
    pub notes: Vec<String>,
    pub rule: String,
    /// named sets of 64-bit signatures (unioned across shards by the driver)
    pub sets: BTreeMap<String, BTreeSet<u64>>,
}

impl Shard {
    pub fn new(engine: &str) -> Shard {
        Shard {
            engine: engine.to_string(),
            ..Default::default()
        }
    }
    pub fn stat(&mut self, k: &str, add: u64) {
        *self.stats.entry(k.to_string()).or_insert(0) += add;
    }
    pub fn set_add(&mut self, k: &str, v: u64) {
        self.sets.entry(k.to_string()).or_default().insert(v);
    }
    pub fn stat_max(&mut self, k: &str, v: u64) {
        let e = self.stats.entry(k.to_string()).or_insert(0);
        if v > *e {
            *e = v;
        }
    }
    pub fn add_violations(&mut self, vs: Vec<Violation>, replay: &J) {
        for v in vs {
            // keep one per signature per shard plus a count
            let key = format!("viol:{}:{}", v.prop, v.sig);
            self.stat(&key, 1);
            if !self.violations.iter().any(|x| x.v.sig == v.sig && x.v.prop == v.prop) {
                self.violations.push(VioOut {
                    v,
                    replay: replay.clone(),
                });
            }
        }
    }
    pub fn to_json(&self) -> J {
        let cov = hooks::coverage();
        let mut viols = Vec::new();
        for v in &self.violations {
            viols.push(
                J::obj()
                    .set("prop", J::s(v.v.prop))
                    .set("rule", J::s(v.v.rule))
                    .set("sig", J::s(v.v.sig.clone()))
                    .set("detail", J::s(v.v.detail.clone()))
                    .set("replay", v.replay.clone()),
            );
        }
        let mut stats = J::obj();
        for (k, v) in &self.stats {
            stats.put(k.clone(), J::UInt(*v));
        }
        let mut hits = J::obj();
        for (k, v) in &cov.site_hits {
            hits.put(k.clone(), J::UInt(*v));
        }
        // cap the signature lists so shard files stay small; the driver unions them
        let cap = 200_000;
        J::obj()
            .set("engine", J::s(self.engine.clone()))
            .set("evaluations", J::UInt(self.evaluations))
            .set(
                "nontrivial",
                J::Arr(self.nontrivial.iter().take(cap).map(|x| J::s(format!("{:x}", x))).collect()),
            )
            .set("nontrivial_count", J::UInt(self.nontrivial.len() as u64))
            .set("distinct_count", J::UInt(self.distinct.len() as u64))
            .set("violations", J::Arr(viols))
            .set("samples", J::Arr(self.samples.clone()))
            .set("stats", stats)
            .set("site_hits", hits)
            .set("sites_never", J::Arr(cov.never.iter().map(|s| J::s(s.clone())).collect()))
            .set("preempt_pairs", J::Arr(hooks::pair_list().into_iter().map(|p| J::UInt(p as u64)).collect()))
            .set("inconclusive", J::Arr(self.inconclusive.iter().map(|s| J::s(s.clone())).collect()))
            .set("notes", J::Arr(self.notes.iter().map(|s| J::s(s.clone())).collect()))
            .set("rule", J::s(self.rule.clone()))
            .set("sets", {
                let mut o = J::obj();
                for (k, v) in &self.sets {
                    o.put(k.clone(), J::Arr(v.iter().take(cap).map(|x| J::s(format!("{:x}", x))).collect()));
                }
                o
            })
    }
}
