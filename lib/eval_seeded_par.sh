#!/bin/bash
# usage: lib/eval_seeded_par.sh <dir with patch.diff> <prop>[,<prop>...] [tier]
# Like eval_seeded.sh but leaves /repo alone, so that several changes can be evaluated at once: the change is
# applied in a scratch worktree of /repo, the checks run from a scratch copy of /verif (own target dir) through the
# VERIF_REPO development aid of ./check. Scratch copy and worktree are removed afterwards.
d=$(readlink -f "$1"); props=$2; tier=${3:-quick}
tag=$(basename "$d")_$$
wt=/tmp/evp_wt_$tag; vc=/tmp/evp_verif_$tag
git -C /repo worktree add -q --detach $wt HEAD || exit 3
cleanup() { git -C /repo worktree remove --force $wt; rm -rf $vc; }
trap cleanup EXIT
git -C $wt apply "$d/patch.diff" || { echo "patch does not apply"; exit 3; }
mkdir -p $vc
rsync -a --exclude target --exclude seeded --exclude .git /verif/ $vc/
cd $vc
for p in ${props//,/ }; do
  VERIF_REPO=$wt ./check $p $tier > "$d/check_${p}_${tier}.log" 2>&1; rc=$?
  echo "$(basename $d) $p $tier exit=$rc $(grep -c '^VIOLATION' "$d/check_${p}_${tier}.log") violation line(s): $(grep -m3 -E '^  rule=' "$d/check_${p}_${tier}.log" | tr '\n' ' ')"
done
