//! Harness side of the crate's hook points: delay / stall / freeze injection,
//! per-call step counting, site coverage and cross-thread pre-emption pairs.
//! Threads stay real (or Miri's); the callback only delays, counts or parks.
use std::cell::RefCell;
use std::sync::atomic::Ordering::{Relaxed, SeqCst};
use std::sync::atomic::{AtomicBool, AtomicU32, AtomicU64, AtomicU8};
use std::sync::Mutex;
use std::time::{Duration, Instant};

use multiqueue2::verif_hooks as vh;
pub use multiqueue2::verif_hooks::site;

use crate::hist;
use crate::rng::Rng;

pub const NSITES: usize = vh::site::COUNT as usize + 1;
pub const PAYLOAD_MID: u32 = vh::site::COUNT;

pub fn site_name(s: u32) -> &'static str {
    if s == PAYLOAD_MID {
        "PAYLOAD_MID"
    } else {
        vh::SITE_NAMES.get(s as usize).copied().unwrap_or("?")
    }
}

pub fn site_by_name(n: &str) -> Option<u32> {
    if n == "PAYLOAD_MID" {
        return Some(PAYLOAD_MID);
    }
    vh::SITE_NAMES.iter().position(|x| *x == n).map(|i| i as u32)
}

/// sites that sit inside a lock held by the crate (never panic there; never freeze there
/// with the `freeze_skip_locked` option)
pub fn in_lock(s: u32) -> bool {
    s == site::FW_PARK_LOCKED
        || s == site::FW_PARK_CHECKED
        || s == site::FW_SOP_FULL
        || s == site::MM_FREE_QUEUED
        || s == site::MM_TRYFREE_TOKEN
        || s == site::MM_DEALLOC
        || s == site::MM_EPOCH_BUMP
        || s == site::BW_CHECKED_FALSE
        || s == site::BW_NOTIFY_LOCKED
}

#[derive(Clone, Copy, Debug, PartialEq)]
pub enum Policy {
    /// only count
    None,
    /// yield with probability 1/8 at every site
    Yield,
    /// p=1/32: spin 1-50us or sleep 10-200us
    Jitter,
    /// planned stalls at (role, site, nth hit) + light yields
    Stall,
}

impl Policy {
    pub fn name(self) -> &'static str {
        match self {
            Policy::None => "none",
            Policy::Yield => "yield",
            Policy::Jitter => "jitter",
            Policy::Stall => "stall",
        }
    }
}

#[derive(Clone, Debug)]
pub struct Stall {
    pub site: u32,
    /// bit mask of roles this stall applies to (bit = role id)
    pub roles: u32,
    /// fire at the n-th hit (1-based) of that site by a matching thread
    pub nth: u32,
    /// number of clock events to wait for
    pub events: u32,
    /// rendezvous: from the nth hit on, pause briefly at every hit until some *other* thread has
    /// passed this site, then wait `events` more clock events and never fire again
    pub until: Option<u32>,
    /// rendezvous only while some thread is currently pausing at this site (two cooperating stalls)
    pub gate: Option<u32>,
    /// longest single pause of a rendezvous stall in microseconds, and how many pauses at most
    pub cap_us: u32,
    pub max_pauses: u32,
}

impl Stall {
    pub fn show(&self) -> String {
        format!(
            "{}@hit{} roles={:#b} wait={}ev{}",
            site_name(self.site),
            self.nth,
            self.roles,
            self.events,
            match (self.until, self.gate) {
                (Some(u), Some(g)) => format!(" until:{} only-while-paused-at:{}", site_name(u), site_name(g)),
                (Some(u), None) => format!(" until:{}", site_name(u)),
                _ => String::new(),
            }
        )
    }
}

pub struct StepBound {
    pub steps: u64,
    pub site: u32,
}

struct Ctx {
    rng: Rng,
    policy: Policy,
    role: u32,
    tid: u32,
    steps: u64,
    step_limit: u64,
    stalls: Vec<(Stall, u32)>, // plan entry + hits so far
    stalls_fired: u32,
    local_hits: Vec<u32>,
    op_hist: Vec<u32>, // site histogram of the current op (only when step_limit>0)
    /// freeze injection: epoch last seen and number of further sites to pass before suspending,
    /// so that threads are suspended at arbitrary points inside their operations
    freeze_epoch: u32,
    freeze_countdown: u32,
}

thread_local! {
    static CTX: RefCell<Option<Ctx>> = RefCell::new(None);
}

#[allow(clippy::declare_interior_mutable_const)]
const Z64: AtomicU64 = AtomicU64::new(0);
#[allow(clippy::declare_interior_mutable_const)]
const Z8: AtomicU8 = AtomicU8::new(0);
pub static SITE_HITS: [AtomicU64; NSITES] = [Z64; NSITES];
static PAIRS: [AtomicU8; NSITES * NSITES] = [Z8; NSITES * NSITES];
static LAST: AtomicU32 = AtomicU32::new(u32::MAX);
static TRACK_PAIRS: AtomicBool = AtomicBool::new(false);
pub static STALLS_FIRED: AtomicU64 = AtomicU64::new(0);
/// per-site pass counters, maintained only while a rendezvous stall is planned
static WATCH: [AtomicU64; NSITES] = [Z64; NSITES];
static WATCH_ON: AtomicBool = AtomicBool::new(false);
static PAUSED_AT: [AtomicU64; NSITES] = [Z64; NSITES];
pub static RENDEZVOUS_MET: AtomicU64 = AtomicU64::new(0);
/// number of times any thread reached the point just before a blocking wait / park
pub static B_WAITS: AtomicU64 = AtomicU64::new(0);

static HARNESS_ERR: Mutex<Option<String>> = Mutex::new(None);

pub fn harness_error(msg: &str) {
    let mut g = match HARNESS_ERR.lock() {
        Ok(g) => g,
        Err(p) => p.into_inner(),
    };
    if g.is_none() {
        *g = Some(msg.to_string());
    }
}
pub fn take_harness_error() -> Option<String> {
    let mut g = match HARNESS_ERR.lock() {
        Ok(g) => g,
        Err(p) => p.into_inner(),
    };
    g.take()
}

// ---- freeze (C18) ----
/// 0 = off; otherwise tid+1 of the only thread allowed to run
static FREEZE: AtomicU32 = AtomicU32::new(0);
static FREEZE_EPOCH: AtomicU32 = AtomicU32::new(0);
static FROZEN: AtomicU32 = AtomicU32::new(0);
pub static ACTIVE: AtomicU32 = AtomicU32::new(0);
pub const MAX_THREADS: usize = 32;
#[allow(clippy::declare_interior_mutable_const)]
const Z32: AtomicU32 = AtomicU32::new(u32::MAX);
pub static FROZEN_AT: [AtomicU32; MAX_THREADS] = [Z32; MAX_THREADS];
/// per thread: number of hook sites passed and the last one (read by supervisors to see whether a
/// thread that cannot publish its own state - e.g. blocked inside a direct recv() - is moving)
pub static T_SITES: [AtomicU64; MAX_THREADS] = [Z64; MAX_THREADS];
pub static T_LAST: [AtomicU32; MAX_THREADS] = [Z32; MAX_THREADS];
/// kernel thread id of every registered harness thread (0 = not registered / finished)
pub static T_KTID: [AtomicU64; MAX_THREADS] = [Z64; MAX_THREADS];

fn proc_stat(ktid: u64) -> Option<(char, u64)> {
    let s = std::fs::read_to_string(format!("/proc/self/task/{}/stat", ktid)).ok()?;
    let close = s.rfind(')')?;
    let mut it = s[close + 1..].split_whitespace();
    let st = it.next()?.chars().next()?;
    // fields after the state: ppid pgrp session tty tpgid flags minflt cminflt majflt cmajflt utime stime
    let v: Vec<&str> = it.collect();
    let ut: u64 = v.get(10)?.parse().ok()?;
    let stt: u64 = v.get(11)?.parse().ok()?;
    Some((st, ut + stt))
}

/// Sound "nothing will ever move again" test for a scenario whose supervisor only waits (call it only
/// after every time-based exit of the harness loops has long expired): in each of `samples` looks
/// 50 ms apart no registered thread passed a hook site (so no queue operation - in particular no
/// notify - made progress), and at least one thread was asleep in the kernel the whole time, gained
/// no CPU time and last passed the site right before `Condvar::wait` of the blocking strategy.
/// Threads that spin in a harness loop waiting for the sleeper do not change the verdict: they do
/// not touch the queue. Second form: every remaining thread last passed a site at the entry of
/// `Wait::wait` (whatever the strategy; a spinning or yielding waiter passes no site) - then nobody is
/// left who could send, drop or notify. Returns what the threads were doing.
pub fn asleep_and_nobody_moves(skip: u32, samples: u32) -> Option<String> {
    if cfg!(miri) {
        return None;
    }
    let debug = std::env::var("MQV_DEBUG").is_ok();
    let threads: Vec<(usize, u64)> = (0..MAX_THREADS)
        .filter(|t| *t as u32 != skip)
        .map(|t| (t, T_KTID[t].load(SeqCst)))
        .filter(|x| x.1 != 0)
        .collect();
    if threads.is_empty() {
        return None;
    }
    let first: Vec<Option<(char, u64)>> = threads.iter().map(|t| proc_stat(t.1)).collect();
    let sites0: Vec<u64> = threads.iter().map(|t| T_SITES[t.0].load(Relaxed)).collect();
    let mut sleeper: Vec<bool> = threads
        .iter()
        .enumerate()
        .map(|(i, t)| T_LAST[t.0].load(Relaxed) == site::BW_CHECKED_FALSE && matches!(first[i], Some(('S', _))))
        .collect();
    for _ in 0..samples {
        std::thread::sleep(Duration::from_millis(50));
        for (i, t) in threads.iter().enumerate() {
            if T_KTID[t.0].load(SeqCst) != t.1 || T_SITES[t.0].load(Relaxed) != sites0[i] {
                if debug {
                    eprintln!("asleep_and_nobody_moves: T{} moved", t.0);
                }
                return None;
            }
            if sleeper[i] {
                match (proc_stat(t.1), first[i]) {
                    (Some((st, cpu)), Some((_, cpu0))) if st == 'S' && cpu == cpu0 => {}
                    _ => sleeper[i] = false,
                }
            }
        }
    }
    // (B) every remaining thread is inside Wait::wait (asleep, yielding or spinning - it does not
    // matter): nobody is left who could send, drop or notify
    let wait_sites = [site::B_BEFORE_WAIT, site::BW_BEFORE_LOCK, site::BW_CHECKED_FALSE, site::BW_WOKEN];
    let all_waiting = threads.iter().all(|t| wait_sites.contains(&T_LAST[t.0].load(Relaxed)));
    if all_waiting {
        return Some(
            threads
                .iter()
                .map(|t| format!("T{} inside Wait::wait after site {}", t.0, site_name(T_LAST[t.0].load(Relaxed))))
                .collect::<Vec<_>>()
                .join(", "),
        );
    }
    if !sleeper.iter().any(|x| *x) {
        if debug {
            for t in &threads {
                eprintln!("asleep_and_nobody_moves: T{} last {}", t.0, site_name(T_LAST[t.0].load(Relaxed)));
            }
        }
        return None;
    }
    Some(
        threads
            .iter()
            .enumerate()
            .map(|(i, t)| {
                format!(
                    "T{} {} after site {}",
                    t.0,
                    if sleeper[i] { "asleep in Condvar::wait" } else { "not in the queue's wait (no site passed)" },
                    site_name(T_LAST[t.0].load(Relaxed))
                )
            })
            .collect::<Vec<_>>()
            .join(", "),
    )
}

pub fn sites_passed_by_all() -> u64 {
    (0..MAX_THREADS).map(|t| T_SITES[t].load(Relaxed)).fold(0u64, |a, b| a.wrapping_add(b))
}

pub fn install() {
    vh::set_callback(Some(callback));
}

pub fn set_fut_park_sleep_ms(ms: u64) {
    vh::FUT_PARK_SLEEP_MS.store(ms, Relaxed);
}

pub fn track_pairs(on: bool) {
    TRACK_PAIRS.store(on, Relaxed);
}

pub fn thread_begin(tid: u32, role: u32, seed: u64, policy: Policy, plan: &[Stall]) {
    hist::set_thread(tid);
    let stalls = plan
        .iter()
        .filter(|s| s.roles & (1 << role) != 0)
        .map(|s| (s.clone(), 0u32))
        .collect();
    CTX.with(|c| {
        *c.borrow_mut() = Some(Ctx {
            rng: Rng::new(seed ^ ((tid as u64) << 32) ^ 0x5157),
            policy,
            role,
            tid,
            steps: 0,
            step_limit: 0,
            stalls,
            stalls_fired: 0,
            local_hits: vec![0; NSITES],
            op_hist: Vec::new(),
            freeze_epoch: 0,
            freeze_countdown: 0,
        })
    });
    if plan.iter().any(|s| s.until.is_some()) {
        WATCH_ON.store(true, Relaxed);
    }
    #[cfg(not(miri))]
    if (tid as usize) < MAX_THREADS {
        T_KTID[tid as usize].store(unsafe { libc::syscall(libc::SYS_gettid) } as u64, SeqCst);
    }
    ACTIVE.fetch_add(1, SeqCst);
}

pub fn watch_off() {
    WATCH_ON.store(false, Relaxed);
}

pub fn thread_end() {
    ACTIVE.fetch_sub(1, SeqCst);
    CTX.with(|c| {
        if let Some(ctx) = c.borrow_mut().take() {
            if (ctx.tid as usize) < MAX_THREADS {
                T_KTID[ctx.tid as usize].store(0, SeqCst);
            }
            for (i, h) in ctx.local_hits.iter().enumerate() {
                if *h != 0 {
                    SITE_HITS[i].fetch_add(*h as u64, Relaxed);
                }
            }
            let _ = (ctx.role, ctx.stalls_fired);
        }
    });
}

/// publish the calling thread's site counters now (long-lived worker threads)
pub fn flush_hits() {
    CTX.with(|c| {
        if let Some(ctx) = c.borrow_mut().as_mut() {
            for (i, h) in ctx.local_hits.iter_mut().enumerate() {
                if *h != 0 {
                    SITE_HITS[i].fetch_add(*h as u64, Relaxed);
                    *h = 0;
                }
            }
        }
    });
}

/// start counting the calling thread's own steps for one API call; `limit` = 0 disables
pub fn op_begin(limit: u64) {
    CTX.with(|c| {
        if let Some(ctx) = c.borrow_mut().as_mut() {
            ctx.steps = 0;
            ctx.step_limit = limit;
            ctx.op_hist.clear();
        }
    });
}

/// steps (hook sites passed) since op_begin
pub fn op_steps() -> u64 {
    CTX.with(|c| c.borrow().as_ref().map(|x| x.steps).unwrap_or(0))
}

pub fn op_end() -> u64 {
    CTX.with(|c| {
        if let Some(ctx) = c.borrow_mut().as_mut() {
            ctx.step_limit = 0;
            ctx.steps
        } else {
            0
        }
    })
}

pub fn payload_mid() {
    callback(PAYLOAD_MID);
}

fn spin_for(d: Duration) {
    let t = Instant::now();
    while t.elapsed() < d {
        std::hint::spin_loop();
    }
}

fn do_stall(events: u32) {
    STALLS_FIRED.fetch_add(1, Relaxed);
    if cfg!(miri) {
        for _ in 0..(events.min(40)) {
            std::thread::yield_now();
        }
        return;
    }
    let start = hist::clock_peek();
    let t0 = Instant::now();
    let cap = Duration::from_millis(5);
    loop {
        if hist::clock_peek() >= start + events as u64 {
            break;
        }
        if t0.elapsed() > cap {
            break;
        }
        std::thread::yield_now();
    }
}

fn freeze_here(tid: u32, s: u32) {
    // park until released; acknowledge so the solo thread knows we are suspended
    if (tid as usize) < MAX_THREADS {
        FROZEN_AT[tid as usize].store(s, SeqCst);
    }
    FROZEN.fetch_add(1, SeqCst);
    while FREEZE.load(SeqCst) != 0 {
        if cfg!(miri) {
            std::thread::yield_now();
        } else {
            std::thread::sleep(Duration::from_micros(20));
        }
    }
    FROZEN.fetch_sub(1, SeqCst);
    if (tid as usize) < MAX_THREADS {
        FROZEN_AT[tid as usize].store(u32::MAX, SeqCst);
    }
}

/// ask every other registered thread to suspend at its next hook site
pub fn freeze_others(my_tid: u32) {
    FREEZE_EPOCH.fetch_add(1, SeqCst);
    FREEZE.store(my_tid + 1, SeqCst);
}
pub fn frozen_count() -> u32 {
    FROZEN.load(SeqCst)
}
pub fn release_all() {
    FREEZE.store(0, SeqCst);
}
pub fn freeze_active() -> bool {
    FREEZE.load(SeqCst) != 0
}

pub fn callback(s: u32) {
    if s == site::B_BEFORE_WAIT {
        B_WAITS.fetch_add(1, Relaxed);
    }
    if WATCH_ON.load(Relaxed) {
        WATCH[s as usize].fetch_add(1, Relaxed);
    }
    // fast exit when the thread has no context (e.g. harness main thread outside runs)
    let mut fire: Option<u32> = None;
    let mut rendezvous: Option<(u32, u32)> = None;
    let mut rv_index: Option<u32> = None;
    let mut rv_cap: u32 = 200;
    let mut bound: Option<StepBound> = None;
    let mut tid = u32::MAX;
    let mut action = 0u8; // 1 yield, 2 spin, 3 sleep
    let mut amount = 0u64;
    let ok = CTX
        .try_with(|c| {
            let mut b = match c.try_borrow_mut() {
                Ok(b) => b,
                Err(_) => return,
            };
            let ctx = match b.as_mut() {
                Some(c) => c,
                None => return,
            };
            tid = ctx.tid;
            if (tid as usize) < MAX_THREADS {
                T_SITES[tid as usize].fetch_add(1, Relaxed);
                T_LAST[tid as usize].store(s, Relaxed);
            }
            ctx.steps += 1;
            ctx.local_hits[s as usize] += 1;
            if ctx.step_limit != 0 {
                if ctx.op_hist.len() < NSITES {
                    ctx.op_hist.resize(NSITES, 0);
                }
                ctx.op_hist[s as usize] += 1;
                if ctx.steps > ctx.step_limit && !in_lock(s) {
                    bound = Some(StepBound {
                        steps: ctx.steps,
                        site: s,
                    });
                    ctx.step_limit = 0;
                    return;
                }
            }
            match ctx.policy {
                Policy::None => {}
                Policy::Yield => {
                    if ctx.rng.chance(1, 8) {
                        action = 1;
                    }
                }
                Policy::Jitter => {
                    if ctx.rng.chance(1, 32) {
                        if ctx.rng.chance(1, 2) {
                            action = 2;
                            amount = ctx.rng.range(1, 50);
                        } else {
                            action = 3;
                            amount = ctx.rng.range(10, 200);
                        }
                    }
                }
                Policy::Stall => {
                    for (st, hits) in ctx.stalls.iter_mut() {
                        if st.site == s {
                            *hits += 1;
                            match st.until {
                                None => {
                                    if *hits == st.nth {
                                        fire = Some(st.events);
                                        ctx.stalls_fired += 1;
                                    }
                                }
                                Some(u) => {
                                    // u32::MAX in `nth` marks a rendezvous that has been met / given up
                                    let open = match st.gate {
                                        Some(g) => PAUSED_AT[g as usize].load(Relaxed) > 0,
                                        None => true,
                                    };
                                    if st.nth != u32::MAX && *hits >= st.nth && open {
                                        if st.max_pauses == 0 {
                                            st.nth = u32::MAX;
                                        } else {
                                            st.max_pauses -= 1;
                                            rendezvous = Some((u, st.events));
                                            rv_index = Some(st.site);
                                            rv_cap = st.cap_us;
                                        }
                                    }
                                }
                            }
                        }
                    }
                    if fire.is_none() && ctx.rng.chance(1, 16) {
                        action = 1;
                    }
                }
            }
        })
        .is_ok();
    if !ok {
        return;
    }
    if let Some(b) = bound {
        std::panic::panic_any(b);
    }
    if tid != u32::MAX && TRACK_PAIRS.load(Relaxed) {
        let me = (tid << 8) | s;
        let prev = LAST.swap(me, Relaxed);
        if prev != u32::MAX && (prev >> 8) != tid {
            let ps = (prev & 0xff) as usize;
            if ps < NSITES {
                PAIRS[ps * NSITES + s as usize].store(1, Relaxed);
            }
        }
    }
    if let Some((u, ev)) = rendezvous {
        // pause (at most 200 us) for another thread to pass site `u`
        let base = WATCH[u as usize].load(Relaxed);
        PAUSED_AT[s as usize].fetch_add(1, Relaxed);
        let t0 = Instant::now();
        let mut met = false;
        let mut i = 0u32;
        loop {
            if WATCH[u as usize].load(Relaxed) != base {
                met = true;
                break;
            }
            i += 1;
            if cfg!(miri) {
                if i > 6 {
                    break;
                }
                std::thread::yield_now();
            } else {
                if t0.elapsed() > Duration::from_micros(rv_cap as u64) {
                    break;
                }
                std::hint::spin_loop();
            }
        }
        PAUSED_AT[s as usize].fetch_sub(1, Relaxed);
        if met {
            RENDEZVOUS_MET.fetch_add(1, Relaxed);
            do_stall(ev);
            // never again
            let _ = CTX.try_with(|c| {
                if let Ok(mut b) = c.try_borrow_mut() {
                    if let Some(ctx) = b.as_mut() {
                        for (st, _) in ctx.stalls.iter_mut() {
                            if Some(st.site) == rv_index && st.until == Some(u) {
                                st.nth = u32::MAX;
                            }
                        }
                    }
                }
            });
        }
    } else if let Some(ev) = fire {
        do_stall(ev);
    } else {
        match action {
            1 => std::thread::yield_now(),
            2 => {
                if cfg!(miri) {
                    std::thread::yield_now()
                } else {
                    spin_for(Duration::from_micros(amount))
                }
            }
            3 => {
                if cfg!(miri) {
                    std::thread::yield_now()
                } else {
                    std::thread::sleep(Duration::from_micros(amount))
                }
            }
            _ => {}
        }
    }
    if tid != u32::MAX {
        let f = FREEZE.load(Relaxed);
        if f != 0 && f != tid + 1 {
            // pass a random number of further sites first (0..12), then suspend right here
            let ep = FREEZE_EPOCH.load(Relaxed);
            let go = CTX
                .try_with(|c| {
                    if let Ok(mut b) = c.try_borrow_mut() {
                        if let Some(ctx) = b.as_mut() {
                            if ctx.freeze_epoch != ep {
                                ctx.freeze_epoch = ep;
                                ctx.freeze_countdown = ctx.rng.below(12) as u32;
                            }
                            if ctx.freeze_countdown == 0 {
                                return true;
                            }
                            ctx.freeze_countdown -= 1;
                            return false;
                        }
                    }
                    true
                })
                .unwrap_or(true);
            if go {
                freeze_here(tid, s);
            }
        }
    }
}

/// current op's site histogram as text (for violation details)
pub fn op_hist_text() -> String {
    CTX.with(|c| {
        let b = c.borrow();
        let mut out = String::new();
        if let Some(ctx) = b.as_ref() {
            for (i, n) in ctx.op_hist.iter().enumerate() {
                if *n != 0 {
                    out.push_str(&format!("{}={} ", site_name(i as u32), n));
                }
            }
        }
        out
    })
}

pub struct Coverage {
    pub site_hits: Vec<(String, u64)>,
    pub never: Vec<String>,
    pub pairs: u64,
}

pub fn coverage() -> Coverage {
    let mut site_hits = Vec::new();
    let mut never = Vec::new();
    for i in 0..NSITES {
        let h = SITE_HITS[i].load(Relaxed);
        if h == 0 {
            never.push(site_name(i as u32).to_string());
        } else {
            site_hits.push((site_name(i as u32).to_string(), h));
        }
    }
    let mut pairs = 0;
    for p in PAIRS.iter() {
        if p.load(Relaxed) != 0 {
            pairs += 1;
        }
    }
    Coverage {
        site_hits,
        never,
        pairs,
    }
}

/// list of covered pre-emption pairs as indices (for cross-shard union)
pub fn pair_list() -> Vec<u32> {
    let mut v = Vec::new();
    for (i, p) in PAIRS.iter().enumerate() {
        if p.load(Relaxed) != 0 {
            v.push(i as u32);
        }
    }
    v
}
