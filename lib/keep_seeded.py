#!/usr/bin/env python3
"""usage: keep_seeded.py <src_dir> <id> <caught-by text> [confirm line]
Copies a confirmed seeded change into /verif/seeded/<id>/ and completes its meta.json."""
import json, os, shutil, sys
src, sid, caught = sys.argv[1], sys.argv[2], sys.argv[3]
confirm = sys.argv[4] if len(sys.argv) > 4 else ""
dst = os.path.join('/verif/seeded', sid)
os.makedirs(dst, exist_ok=True)
for f in ('patch.diff', 'demo.rs'):
    if os.path.exists(os.path.join(src, f)):
        shutil.copy(os.path.join(src, f), os.path.join(dst, f))
meta = {}
mp = os.path.join(src, 'meta.json')
if os.path.exists(mp):
    try:
        meta = json.load(open(mp))
    except Exception:
        meta = {"raw": open(mp).read()}
meta['id'] = sid
meta['confirmed_by_me'] = confirm or "lib/confirm_seeded.sh: applies in a scratch worktree, existing suite passes with the change, demo fails with it (3/3) and passes without it (3/3)"
meta['detected_by'] = caught
meta['how_checked'] = "lib/eval_seeded.sh <dir> <props>: git -C /repo apply patch.diff; ./check <prop> quick; git -C /repo checkout -- ."
json.dump(meta, open(os.path.join(dst, 'meta.json'), 'w'), indent=1)
print('kept', dst)
