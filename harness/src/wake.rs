//! mq-wake (C08): a blocked receiver always wakes. The harness passes its own
//! `SpyWait<W>` (public `Wait` trait) to `*_queue_with`; it records the arguments of
//! the wait the consumer is in and delegates to the real strategy. Once the producers
//! are done sending (and stay alive, idle) no memory the wake predicate reads can
//! change any more, so a consumer that sits in `wait(seq, at, wc)` with the crate's own
//! `wait::check(seq, at, wc)` false can never return: decided on logical grounds.
use std::sync::atomic::Ordering::SeqCst;
use std::sync::atomic::{AtomicBool, AtomicU32, AtomicU64, AtomicUsize};
use std::sync::Arc;
use std::time::{Duration, Instant};

use multiqueue2::wait::{self, BlockingWait, BusyWait, Wait, YieldingWait};

use crate::api::{self, Flavour, RecvKind, RecvOut, RxH, SendOut, TxH, WaitKind};
use crate::checkers::{self, CheckCtx};
use crate::hist;
use crate::hooks::{self, site, Policy, Stall};
use crate::model::capacity_for;
use crate::out::J;
use crate::payload::{self, violation};
use crate::report::Shard;
use crate::rng::{Hasher64, Rng};

const MAXT: usize = hooks::MAX_THREADS;

pub struct SpySlot {
    enters: AtomicU64,
    exits: AtomicU64,
    seq: AtomicUsize,
    at: AtomicUsize,
    wc: AtomicUsize,
}

pub struct SpyState {
    slots: Vec<SpySlot>,
}

impl SpyState {
    fn new() -> SpyState {
        let mut slots = Vec::new();
        for _ in 0..MAXT {
            slots.push(SpySlot {
                enters: AtomicU64::new(0),
                exits: AtomicU64::new(0),
                seq: AtomicUsize::new(0),
                at: AtomicUsize::new(0),
                wc: AtomicUsize::new(0),
            });
        }
        SpyState { slots }
    }
}

pub struct SpyWait {
    inner: Arc<dyn Wait + Send + Sync>,
    st: Arc<SpyState>,
}

impl Wait for SpyWait {
    fn wait(&self, seq: usize, at: &AtomicUsize, wc: &AtomicUsize) {
        let tid = hist::thread_id() as usize;
        if tid < MAXT {
            let s = &self.st.slots[tid];
            s.seq.store(seq, SeqCst);
            s.at.store(at as *const AtomicUsize as usize, SeqCst);
            s.wc.store(wc as *const AtomicUsize as usize, SeqCst);
            s.enters.fetch_add(1, SeqCst);
        }
        self.inner.wait(seq, at, wc);
        if tid < MAXT {
            self.st.slots[tid].exits.fetch_add(1, SeqCst);
        }
    }
    fn notify(&self) {
        self.inner.notify()
    }
    fn needs_notify(&self) -> bool {
        self.inner.needs_notify()
    }
}

// lock-ordered stamps from the two in-lock hook sites of wait.rs
#[allow(clippy::declare_interior_mutable_const)]
const Z: AtomicU64 = AtomicU64::new(0);
static T_CHK: [AtomicU64; MAXT] = [Z; MAXT];
static T_WOKEN: [AtomicU64; MAXT] = [Z; MAXT];
static T_NOTIFY: AtomicU64 = AtomicU64::new(0);
static STAMPS_ON: AtomicBool = AtomicBool::new(false);

/// called from the hook callback wrapper installed by this engine
pub fn stamp_hook(s: u32) {
    if !STAMPS_ON.load(SeqCst) {
        return;
    }
    let tid = hist::thread_id() as usize;
    if s == site::BW_CHECKED_FALSE {
        if tid < MAXT {
            T_CHK[tid].store(hist::tick(), SeqCst);
        }
    } else if s == site::BW_NOTIFY_LOCKED {
        T_NOTIFY.store(hist::tick(), SeqCst);
    } else if s == site::BW_WOKEN && tid < MAXT {
        T_WOKEN[tid].store(hist::tick(), SeqCst);
    }
}

fn wake_callback(s: u32) {
    stamp_hook(s);
    hooks::callback(s);
}

#[derive(Clone, Debug)]
pub struct WakeCfg {
    pub fl: Flavour,
    pub cap: u64,
    pub wait: WaitKind,
    /// per stream: quotas of its consumers (sum per stream == values)
    pub streams: Vec<Vec<u32>>,
    pub uni: Vec<bool>,
    pub values: u32,
    pub producers: u32,
    pub policy: Policy,
    pub plan: Vec<Stall>,
    pub seed: u64,
    pub iter_consumer: bool,
    /// the first consumer of every stream asks for one value more than will ever be sent: it must
    /// stay blocked while senders are alive and report the end once the last one is gone
    pub overhang: bool,
    /// producers spin on the release flag so that their sender drops overlap
    pub tight_release: bool,
    /// producer 0 also owns a clone of its sender and drops it after this many of its sends: when
    /// it is the only producer its handle goes multi-writer -> sole writer in the middle of the run
    pub ghost: Option<u32>,
}

impl WakeCfg {
    pub fn describe(&self) -> String {
        format!(
            "wake {} cap={} wait={} P={} ghost-sender-dropped-after={:?} values={} streams(quotas)={:?} uni={:?} iter={} overhang={} policy={} plan=[{}]",
            self.fl.name(),
            self.cap,
            self.wait.name(),
            self.producers,
            self.ghost,
            self.values,
            self.streams,
            self.uni,
            self.iter_consumer,
            self.overhang,
            self.policy.name(),
            self.plan.iter().map(|s| s.show()).collect::<Vec<_>>().join(", ")
        )
    }
    fn shape(&self) -> u64 {
        let mut h = Hasher64::new();
        h.add_str(self.fl.name());
        h.add(self.cap);
        h.add_str(&self.wait.name());
        h.add(self.producers as u64);
        h.add(self.ghost.map(|g| g as u64 + 1).unwrap_or(0));
        for s in &self.streams {
            h.add(0xabc);
            for q in s {
                h.add(*q as u64);
            }
        }
        h.add_str(self.policy.name());
        h.get()
    }
}

struct Shared {
    go: AtomicBool,
    release: AtomicBool,
    producers_done: AtomicU32,
    finished: Vec<AtomicBool>,
    got: Vec<AtomicU32>,
    threads_done: AtomicU32,
    /// successful sends (all producers) and completed refused attempts per producer thread
    sent: AtomicU32,
    full_attempts: Vec<AtomicU64>,
    producer_done: Vec<AtomicBool>,
    senders_dropped: AtomicU32,
    /// kernel thread ids of the consumer threads (scheduler state is read from /proc)
    ktid: Vec<AtomicU64>,
}

pub fn gen_cfg(rng: &mut Rng, small: bool) -> WakeCfg {
    let fl = if rng.chance(1, 2) { Flavour::Broadcast } else { Flavour::Mpmc };
    let cap = *rng.pick(&[1u64, 2, 3, 4]);
    let wait = match rng.below(6) {
        0 => WaitKind::Busy,
        1 => WaitKind::Yield(50, 50),
        2 => {
            if rng.chance(1, 2) {
                WaitKind::Yield(0, 1)
            } else {
                WaitKind::Yield(rng.below(3) as usize, 0)
            }
        }
        3 => WaitKind::Block(50, 50),
        _ => WaitKind::Block(0, 0),
    };
    let nstreams = if fl == Flavour::Mpmc { 1 } else { 1 + rng.below(2) as usize };
    let values = if small { 1 + rng.below(3) as u32 } else { 1 + rng.below(6) as u32 };
    let mut streams = Vec::new();
    let mut uni = Vec::new();
    let mut total_consumers = 0;
    for _ in 0..nstreams {
        let mut k = 1 + rng.below(3) as u32;
        if k > values {
            k = values;
        }
        if total_consumers + k > 3 {
            k = (3 - total_consumers).max(1);
        }
        total_consumers += k;
        // split `values` into k positive quotas; most consumers leave after one value
        let mut q = vec![1u32; k as usize];
        let mut rest = values - k;
        while rest > 0 {
            let i = rng.below(k as u64) as usize;
            q[i] += 1;
            rest -= 1;
        }
        uni.push(k == 1 && rng.chance(1, 2));
        streams.push(q);
    }
    let policy = match rng.below(4) {
        0 => Policy::Yield,
        1 => Policy::Jitter,
        _ => Policy::Stall,
    };
    let mut plan = Vec::new();
    if policy == Policy::Stall {
        let c = (1 << crate::conc::ROLE_CONSUMER) | (1 << crate::conc::ROLE_AUX);
        let p = 1 << crate::conc::ROLE_PRODUCER;
        let sites = [
            (site::B_EMPTY, c),
            (site::B_EMPTY, c),
            (site::B_EMPTY, c),
            (site::B_BEFORE_WAIT, c),
            (site::BW_BEFORE_LOCK, c),
            (site::BW_CHECKED_FALSE, c),
            (site::BW_NOTIFY_BEFORE_LOCK, p),
            (site::TS_BEFORE_NOTIFY, p),
            (site::SS_WRITTEN, p),
            (site::SM_WRITTEN, p),
            (site::SM_CLAIMED, p),
            (site::R_TAG, c),
            (site::R_UNPINNED, c),
            (site::R_CAS_LOST, c),
        ];
        for _ in 0..(1 + rng.below(3)) {
            let (s, roles) = *rng.pick(&sites);
            plan.push(Stall {
                site: s,
                roles,
                nth: 1 + rng.below(4) as u32,
                events: 5 + rng.below(60) as u32,
                until: None,
                gate: None,
                cap_us: 200,
                max_pauses: 0,
            });
        }
    }
    let ghost = if rng.chance(1, 3) { Some(rng.below(values as u64 + 1) as u32) } else { None };
    let producers = if ghost.is_some() && rng.chance(2, 3) { 1 } else { 1 + rng.below(3) as u32 };
    WakeCfg {
        fl,
        cap,
        wait,
        streams,
        uni,
        values,
        ghost,
        producers,
        policy,
        plan,
        seed: rng.next(),
        iter_consumer: rng.chance(1, 6),
        overhang: rng.chance(1, 2),
        tight_release: rng.chance(1, 2),
    }
}

enum Verdict {
    Held,
    Violated,
    Inconclusive(String),
}

pub fn run_once(cfg: &WakeCfg, shard: &mut Shard) -> (u64, bool, bool) {
    payload::reset_ledger();
    // Under Miri a move-out queue runs with a pointer-free payload: the speculative bitwise read
    // that try_recv discards when it loses the position race would otherwise be reported as a
    // dangling Box although it is never used (C04 only speaks about values that are returned).
    payload::set_pod_mode(cfg!(miri) && cfg.fl == Flavour::Mpmc);
    api::reset_ids();
    hist::clock_reset();
    for i in 0..MAXT {
        T_CHK[i].store(0, SeqCst);
        T_WOKEN[i].store(0, SeqCst);
    }
    T_NOTIFY.store(0, SeqCst);
    STAMPS_ON.store(true, SeqCst);
    multiqueue2::verif_hooks::set_callback(Some(wake_callback));
    let mut rng = Rng::new(cfg.seed);
    let n = capacity_for(cfg.cap);
    hooks::thread_begin(0, crate::conc::ROLE_MAIN, cfg.seed, Policy::None, &[]);
    let st = Arc::new(SpyState::new());
    let inner: Arc<dyn Wait + Send + Sync> = match cfg.wait {
        WaitKind::Busy => Arc::new(BusyWait::new()),
        WaitKind::Yield(a, b) => Arc::new(YieldingWait::with_spins(a, b)),
        WaitKind::Block(a, b) => Arc::new(BlockingWait::with_spins(a, b)),
    };
    let is_blocking = matches!(cfg.wait, WaitKind::Block(_, _));
    let spy = SpyWait {
        inner: inner.clone(),
        st: st.clone(),
    };
    let (tx0, rx0) = api::create_with_wait(cfg.fl, cfg.cap, spy);
    let first_stream = rx0.stream;
    let first_tx = tx0.h;
    // streams / handles
    let mut handles: Vec<(usize, u32, RxH)> = Vec::new(); // (stream idx, quota, handle)
    {
        let ns = cfg.streams.len();
        let mut heads: Vec<RxH> = Vec::new();
        for _ in 1..ns {
            heads.push(rx0.add_stream(false).expect("add_stream"));
        }
        heads.insert(0, rx0);
        for (si, mut head) in heads.into_iter().enumerate() {
            let qs = &cfg.streams[si];
            let mut hs = Vec::new();
            for _ in 1..qs.len() {
                hs.push(head.clone_rx().expect("clone"));
            }
            if qs.len() == 1 && cfg.uni[si] {
                head.into_single();
            }
            hs.insert(0, head);
            for (ci, h) in hs.into_iter().enumerate() {
                let extra = if cfg.overhang && ci == 0 { 1 } else { 0 };
                handles.push((si, qs[ci] + extra, h));
            }
        }
    }
    let nc = handles.len();
    let mut txs = vec![tx0];
    for _ in 1..cfg.producers {
        let c = txs[0].clone_tx();
        txs.push(c);
    }
    let mut ghost_tx = cfg.ghost.map(|g| (g, txs[0].clone_tx()));
    let shared = Arc::new(Shared {
        go: AtomicBool::new(false),
        release: AtomicBool::new(false),
        producers_done: AtomicU32::new(0),
        finished: (0..MAXT).map(|_| AtomicBool::new(false)).collect(),
        got: (0..MAXT).map(|_| AtomicU32::new(0)).collect(),
        threads_done: AtomicU32::new(0),
        sent: AtomicU32::new(0),
        full_attempts: (0..MAXT).map(|_| AtomicU64::new(0)).collect(),
        producer_done: (0..MAXT).map(|_| AtomicBool::new(false)).collect(),
        senders_dropped: AtomicU32::new(0),
        ktid: (0..MAXT).map(|_| AtomicU64::new(0)).collect(),
    });
    let mut joins = Vec::new();
    let np = cfg.producers;
    let per = cfg.values / np;
    let mut extra = cfg.values % np;
    let mut tid = 1u32;
    let mut consumer_tids: Vec<(u32, usize, u32)> = Vec::new();
    let mut consumer_pts: Vec<(u32, libc::pthread_t)> = Vec::new();
    for (si, quota, mut rx) in handles.drain(..) {
        let sh = shared.clone();
        let seed = rng.next();
        let policy = cfg.policy;
        let plan = cfg.plan.clone();
        let my = tid;
        let use_iter = cfg.iter_consumer && my == 1;
        consumer_tids.push((my, si, quota));
        let jh = 
            std::thread::Builder::new()
                .name(format!("wake-c{}", my))
                .spawn(move || {
                    hooks::thread_begin(my, crate::conc::ROLE_CONSUMER, seed, policy, &plan);
                    if !cfg!(miri) {
                        sh.ktid[my as usize].store(unsafe { libc::syscall(libc::SYS_gettid) } as u64, SeqCst);
                    }
                    let mut r = Rng::new(seed);
                    if use_iter {
                        rx.into_blocking_iter(r.chance(1, 2));
                    }
                    while !sh.go.load(SeqCst) {
                        std::thread::yield_now();
                    }
                    let mut got = 0;
                    while got < quota {
                        let kinds: Vec<RecvKind> = [RecvKind::Recv, RecvKind::RecvView, RecvKind::IterNext]
                            .iter()
                            .copied()
                            .filter(|k| rx.supports(*k))
                            .collect();
                        let k = *r.pick(&kinds);
                        match rx.recv_kind(k) {
                            RecvOut::Val(_) => {
                                got += 1;
                                sh.got[my as usize].store(got, SeqCst);
                            }
                            _ => break,
                        }
                    }
                    sh.finished[my as usize].store(true, SeqCst);
                    // the consumer leaves
                    if r.chance(1, 2) {
                        rx.drop_rx();
                    } else {
                        rx.unsubscribe();
                    }
                    let log = hist::take();
                    hooks::thread_end();
                    sh.threads_done.fetch_add(1, SeqCst);
                    log
                })
                .expect("spawn");
        {
            use std::os::unix::thread::JoinHandleExt;
            consumer_pts.push((my, jh.as_pthread_t()));
        }
        joins.push(jh);
        tid += 1;
    }
    let mut producer_tids: Vec<u32> = Vec::new();
    for (pi, tx) in txs.drain(..).enumerate() {
        producer_tids.push(tid);
        let sh = shared.clone();
        let seed = rng.next();
        let policy = cfg.policy;
        let plan = cfg.plan.clone();
        let my = tid;
        let count = per + if extra > 0 { 1 } else { 0 };
        let tight = cfg.tight_release;
        if extra > 0 {
            extra -= 1;
        }
        let mut ghost = if pi == 0 { ghost_tx.take() } else { None };
        joins.push(
            std::thread::Builder::new()
                .name(format!("wake-p{}", my))
                .spawn(move || {
                    hooks::thread_begin(my, crate::conc::ROLE_PRODUCER, seed, policy, &plan);
                    while !sh.go.load(SeqCst) {
                        std::thread::yield_now();
                    }
                    let mut sent = 0;
                    let mut tries = 0u64;
                    while sent < count {
                        let id = (((pi + 1) as u64) << 32) | sent as u64;
                        if sh.release.load(SeqCst) {
                            break;
                        }
                        if ghost.as_ref().map(|g| g.0 <= sent).unwrap_or(false) {
                            if let Some((_, g)) = ghost.take() {
                                g.drop_tx(false);
                            }
                        }
                        match tx.try_send(id) {
                            SendOut::Ok => {
                                sent += 1;
                                sh.sent.fetch_add(1, SeqCst);
                            }
                            SendOut::Full => {
                                tries += 1;
                                sh.full_attempts[my as usize].fetch_add(1, SeqCst);
                                std::thread::yield_now();
                            }
                            _ => break,
                        }
                    }
                    let _ = tries;
                    if let Some((_, g)) = ghost.take() {
                        g.drop_tx(false);
                    }
                    sh.producer_done[my as usize].store(true, SeqCst);
                    sh.producers_done.fetch_add(1, SeqCst);
                    // stay alive, idle, holding the sender
                    let mut w = 0u64;
                    while !sh.release.load(SeqCst) {
                        w += 1;
                        if cfg!(miri) {
                            std::thread::yield_now();
                        } else if tight {
                            // all senders leave at (nearly) the same instant
                            std::hint::spin_loop();
                            if w % 4096 == 0 {
                                std::thread::yield_now();
                            }
                        } else {
                            std::thread::sleep(Duration::from_micros(50));
                        }
                    }
                    tx.drop_tx(false);
                    sh.senders_dropped.fetch_add(1, SeqCst);
                    let log = hist::take();
                    hooks::thread_end();
                    sh.threads_done.fetch_add(1, SeqCst);
                    log
                })
                .expect("spawn"),
        );
        tid += 1;
    }
    let nthreads = joins.len() as u32;
    shared.go.store(true, SeqCst);

    // ---- decide on logical grounds
    let t0 = Instant::now();
    let watchdog = Duration::from_secs(if cfg!(miri) { 100_000 } else { 20 });
    let mut verdict = Verdict::Held;
    let snap = |tid: u32| -> (u64, u64, usize, usize, usize) {
        let s = &st.slots[tid as usize];
        let e1 = s.enters.load(SeqCst);
        let x = s.exits.load(SeqCst);
        (e1, x, s.seq.load(SeqCst), s.at.load(SeqCst), s.wc.load(SeqCst))
    };
    // what one unfinished consumer is doing right now
    #[derive(PartialEq)]
    enum CS {
        Running,
        /// inside wait, wake predicate false: nothing but a new publish / the last sender drop can wake it
        WaitFalse(String, String),
        /// inside BlockingWait's condvar, predicate true, but no notification since it checked
        LostNotify(String),
        /// inside wait, predicate true: it is expected to return by itself
        WaitTrue(String),
    }
    let classify_raw = |c: &(u32, usize, u32), sn: (u64, u64, usize, usize, usize)| -> CS {
        let (e, x, seq, at, wc) = sn;
        if e == x || at == 0 {
            return CS::Running;
        }
        let atr = unsafe { &*(at as *const AtomicUsize) };
        let wcr = unsafe { &*(wc as *const AtomicUsize) };
        let chk = wait::check(seq, atr, wcr);
        let tag = wait::load_tagless(atr);
        let detail = format!(
            "thread T{} (stream index {}, got {} of {}) is inside wait(seq={}, slot tag={}, writers={})",
            c.0,
            c.1,
            shared.got[c.0 as usize].load(SeqCst),
            c.2,
            seq,
            if tag == (usize::MAX >> 1) { "initial".to_string() } else { tag.to_string() },
            wcr.load(SeqCst)
        );
        if !chk {
            let mask = (n - 1) as usize;
            let kind = if tag != (usize::MAX >> 1) && (tag & mask) != (seq & mask) { "wrong-slot" } else { "predicate-false" };
            CS::WaitFalse(kind.to_string(), detail)
        } else if is_blocking {
            let t_chk = T_CHK[c.0 as usize].load(SeqCst);
            let t_wok = T_WOKEN[c.0 as usize].load(SeqCst);
            let t_not = T_NOTIFY.load(SeqCst);
            if t_chk != 0 && t_wok < t_chk && t_not < t_chk {
                CS::LostNotify(detail)
            } else {
                CS::WaitTrue(detail)
            }
        } else {
            CS::WaitTrue(detail)
        }
    };
    let classify = |c: &(u32, usize, u32)| -> CS {
        let sn = snap(c.0);
        let r = classify_raw(c, sn);
        // The spy slot, the stamps and the memory the predicate reads are sampled one after the other:
        // the classification only stands if the consumer was inside the very same wait() call before
        // and after all of it was read (otherwise stale arguments get mixed with fresh stamps).
        let (e1, x1, _, _, _) = snap(c.0);
        if e1 != sn.0 || x1 == e1 {
            return CS::Running;
        }
        r
    };
    // own-CPU-time bound for a wait that keeps spinning although its predicate is true
    let mut spin_watch: Vec<(u64, u64)> = vec![(u64::MAX, 0); MAXT]; // (wait entry number, cpu ns when first seen)
    let mut spin_rule = |c: &(u32, usize, u32), detail: &str, phase: &str| -> bool {
        if cfg!(miri) {
            return false;
        }
        let pt = match consumer_pts.iter().find(|p| p.0 == c.0) {
            Some(p) => p.1,
            None => return false,
        };
        let e = st.slots[c.0 as usize].enters.load(SeqCst);
        let cpu = match crate::solo::thread_cpu_ns(pt) {
            Some(c) => c,
            None => return false,
        };
        let w = &mut spin_watch[c.0 as usize];
        if w.0 != e {
            *w = (e, cpu);
            return false;
        }
        if cpu - w.1 > 1_500_000_000 {
            violation(
                "C08",
                "blocked-forever",
                format!("blocked-forever:spins-although-predicate-true:{}", phase),
                format!(
                    "the wake condition of this consumer is true and nothing else is running, yet the same Wait::wait call has consumed more than 1.5 s of its own CPU time without returning: {}",
                    detail
                ),
            );
            return true;
        }
        false
    };
    // A consumer inside BlockingWait whose predicate is true and for which a notification was issued
    // after its locked check, yet which stays asleep in the kernel without consuming CPU while nothing
    // else can happen any more: the notification was lost between its check and its registration.
    let mut sleep_watch: Vec<(u64, u64, u32)> = vec![(u64::MAX, 0, 0); MAXT]; // (wait entry, cpu, consecutive samples)
    let mut asleep_rule = |c: &(u32, usize, u32), detail: &str, phase: &str| -> bool {
        if cfg!(miri) || !is_blocking {
            return false;
        }
        let pt = match consumer_pts.iter().find(|p| p.0 == c.0) {
            Some(p) => p.1,
            None => return false,
        };
        let e = st.slots[c.0 as usize].enters.load(SeqCst);
        let cpu = match crate::solo::thread_cpu_ns(pt) {
            Some(c) => c,
            None => return false,
        };
        let state = crate::solo::solo_state(shared.ktid[c.0 as usize].load(SeqCst));
        let w = &mut sleep_watch[c.0 as usize];
        if w.0 != e || w.1 != cpu || state != Some('S') {
            *w = (e, cpu, 0);
            return false;
        }
        w.2 += 1;
        if w.2 >= 150 {
            violation(
                "C08,C07",
                "blocked-forever",
                format!("blocked-forever:asleep-although-predicate-true:{}", phase),
                format!(
                    "the wake condition of this consumer is true, nothing else is running, and it has been asleep in the kernel for 150 consecutive samples without consuming any CPU: the wake-up it needed was lost: {}",
                    detail
                ),
            );
            return true;
        }
        false
    };
    let stream_outstanding = |si: usize| -> bool {
        let consumed: u32 = consumer_tids.iter().filter(|c| c.1 == si).map(|c| shared.got[c.0 as usize].load(SeqCst)).sum();
        consumed < shared.sent.load(SeqCst).min(cfg.values)
    };
    let mut spins = 0u64;
    // ---- phase 1: senders alive
    loop {
        if t0.elapsed() > watchdog {
            verdict = Verdict::Inconclusive("consumers neither finished nor entered wait within the watchdog".into());
            break;
        }
        spins += 1;
        if spins % 4 == 0 {
            if cfg!(miri) {
                std::thread::yield_now();
            } else {
                std::thread::sleep(Duration::from_micros(100));
            }
        } else {
            std::thread::yield_now();
        }
        // producers that are still trying: they must be provably refused (Full) throughout
        let active_producers: Vec<u32> = producer_tids
            .iter()
            .copied()
            .filter(|t| !shared.producer_done[*t as usize].load(SeqCst))
            .collect();
        let sent_before = shared.sent.load(SeqCst);
        let fa_before: Vec<u64> = active_producers.iter().map(|t| shared.full_attempts[*t as usize].load(SeqCst)).collect();
        let unfinished: Vec<&(u32, usize, u32)> = consumer_tids
            .iter()
            .filter(|c| !shared.finished[c.0 as usize].load(SeqCst))
            .collect();
        if unfinished.is_empty() {
            break;
        }
        // every unfinished consumer must be provably stuck at the same instant
        let mut stuck: Vec<(u32, usize, String, String)> = Vec::new();
        let mut all = true;
        let mut spun = false;
        for c in &unfinished {
            match classify(c) {
                CS::Running => {
                    all = false;
                    break;
                }
                CS::WaitFalse(kind, detail) => stuck.push((c.0, c.1, kind, detail)),
                CS::LostNotify(detail) => stuck.push((c.0, c.1, "lost-notify".to_string(), detail)),
                CS::WaitTrue(detail) => {
                    all = false;
                    if active_producers.is_empty()
                        && (spin_rule(c, &detail, "senders-alive") || asleep_rule(c, &detail, "senders-alive"))
                    {
                        spun = true;
                    }
                    break;
                }
            }
        }
        if spun {
            verdict = Verdict::Violated;
            break;
        }
        if !all {
            continue;
        }
        // confirm with a second sample: same wait calls still in progress
        let first: Vec<(u64, u64)> = unfinished.iter().map(|c| { let s = snap(c.0); (s.0, s.1) }).collect();
        for _ in 0..50 {
            std::thread::yield_now();
        }
        if !cfg!(miri) {
            std::thread::sleep(Duration::from_millis(2));
        }
        if !active_producers.is_empty() {
            // wait until every active producer completed at least two more refused attempts
            let tw = Instant::now();
            loop {
                let ok = active_producers
                    .iter()
                    .zip(fa_before.iter())
                    .all(|(t, b)| shared.full_attempts[*t as usize].load(SeqCst) >= b + 2);
                if ok || tw.elapsed() > Duration::from_millis(200) {
                    break;
                }
                std::thread::yield_now();
            }
            let ok = active_producers
                .iter()
                .zip(fa_before.iter())
                .all(|(t, b)| shared.full_attempts[*t as usize].load(SeqCst) >= b + 2);
            if !ok
                || shared.sent.load(SeqCst) != sent_before
                || active_producers.iter().any(|t| shared.producer_done[*t as usize].load(SeqCst))
            {
                continue;
            }
        }
        let second: Vec<(u64, u64)> = unfinished.iter().map(|c| { let s = snap(c.0); (s.0, s.1) }).collect();
        if first != second || unfinished.iter().any(|c| shared.finished[c.0 as usize].load(SeqCst)) {
            continue;
        }
        if shared.sent.load(SeqCst) != sent_before {
            continue;
        }
        // re-classify from scratch: every stuck consumer must still be in the same wait() call and in
        // the same class
        let still = stuck.iter().all(|(t, _, kind, _)| {
            let c = consumer_tids.iter().find(|c| c.0 == *t).unwrap();
            match classify(c) {
                CS::WaitFalse(k, _) => &k == kind,
                CS::LostNotify(_) => kind == "lost-notify",
                _ => false,
            }
        });
        if !still {
            continue;
        }
        // Stable: nobody can change anything. Consumers whose stream has no value left are
        // legitimately waiting (for the end of the stream); anybody else is stuck for good.
        let really_stuck: Vec<&(u32, usize, String, String)> = stuck
            .iter()
            .filter(|(_, si, kind, _)| kind == "lost-notify" || stream_outstanding(*si) || !active_producers.is_empty())
            .collect();
        if really_stuck.is_empty() {
            shard.stat("runs_with_consumers_left_waiting_for_the_end", 1);
            break;
        }
        let consumed: u32 = consumer_tids.iter().map(|c| shared.got[c.0 as usize].load(SeqCst)).sum();
        for (_, _, kind, detail) in really_stuck {
            violation(
                "C08",
                "blocked-forever",
                format!("blocked-forever:{}", kind),
                format!(
                    "no send can complete any more ({} of {} values accepted, {} producer(s) still being refused with Full in a state nobody can change, {} deliveries so far) and every sender stays alive; a consumer with a value outstanding on its stream is blocked and can never wake: {} [{}]",
                    shared.sent.load(SeqCst), cfg.values, active_producers.len(), consumed, detail, kind
                ),
            );
        }
        verdict = Verdict::Violated;
        break;
    }
    // ---- phase 2: every sender handle is dropped (by its own thread, concurrently); whoever is
    // still blocked must now see the end of the stream
    shared.release.store(true, SeqCst);
    let t1 = Instant::now();
    let mut phase2_done = matches!(verdict, Verdict::Violated | Verdict::Inconclusive(_));
    while !phase2_done {
        if t1.elapsed() > watchdog {
            verdict = Verdict::Inconclusive("consumers did not return after every sender was dropped (watchdog)".into());
            break;
        }
        std::thread::yield_now();
        if !cfg!(miri) {
            std::thread::sleep(Duration::from_micros(100));
        }
        if shared.senders_dropped.load(SeqCst) < np {
            continue;
        }
        let unfinished: Vec<&(u32, usize, u32)> = consumer_tids
            .iter()
            .filter(|c| !shared.finished[c.0 as usize].load(SeqCst))
            .collect();
        if unfinished.is_empty() {
            break;
        }
        let mut lost: Vec<(u32, String)> = Vec::new();
        let mut all = true;
        for c in &unfinished {
            match classify(c) {
                CS::LostNotify(detail) => lost.push((c.0, detail)),
                CS::WaitFalse(_, detail) => {
                    // writers == 0 makes the predicate true; a false one means the count is wrong
                    lost.push((c.0, format!("predicate still false: {}", detail)));
                }
                CS::WaitTrue(detail) => {
                    all = false;
                    if spin_rule(c, &detail, "after-last-sender") || asleep_rule(c, &detail, "after-last-sender") {
                        verdict = Verdict::Violated;
                        phase2_done = true;
                    }
                    break;
                }
                CS::Running => {
                    all = false;
                    break;
                }
            }
        }
        if phase2_done {
            break;
        }
        if !all {
            continue;
        }
        let first: Vec<(u64, u64)> = unfinished.iter().map(|c| { let s = snap(c.0); (s.0, s.1) }).collect();
        for _ in 0..50 {
            std::thread::yield_now();
        }
        if !cfg!(miri) {
            std::thread::sleep(Duration::from_millis(2));
        }
        let second: Vec<(u64, u64)> = unfinished.iter().map(|c| { let s = snap(c.0); (s.0, s.1) }).collect();
        if first != second {
            continue;
        }
        let still = unfinished.iter().all(|c| !matches!(classify(c), CS::Running | CS::WaitTrue(_)));
        if !still {
            continue;
        }
        for (_, detail) in &lost {
            violation(
                "C08,C07",
                "blocked-forever",
                "blocked-forever:after-last-sender-dropped".to_string(),
                format!(
                    "every sender handle has been dropped (all {} drops returned) but a consumer is still blocked and nobody is left to wake it: {}",
                    np, detail
                ),
            );
        }
        verdict = Verdict::Violated;
        break;
    }
    // ---- rescue and join
    if !cfg!(miri) {
        let t2 = Instant::now();
        while shared.threads_done.load(SeqCst) < nthreads {
            std::thread::sleep(Duration::from_micros(200));
            // explicit pokes, only now that the verdict is in
            if t2.elapsed() > Duration::from_millis(20) {
                inner.notify();
            }
            if t2.elapsed() > Duration::from_secs(20) {
                shard.inconclusive.push(format!("threads did not return even after every sender was dropped: {}", cfg.describe()));
                let vs = also_c12(cfg, payload::take_violations());
                if !vs.is_empty() {
                    let replay = J::obj().set("engine", J::s("wake")).set("cfg", J::s(cfg.describe())).set("run_seed", J::UInt(cfg.seed));
                    shard.add_violations(vs, &replay);
                }
                hooks::thread_end();
                STAMPS_ON.store(false, SeqCst);
                multiqueue2::verif_hooks::set_callback(Some(hooks::callback));
                return (0, false, true);
            }
        }
    }
    let mut logs = Vec::new();
    for j in joins {
        if let Ok(l) = j.join() {
            logs.push(l);
        }
    }
    logs.push(hist::take());
    let h = hist::merge(logs);
    hooks::thread_end();
    STAMPS_ON.store(false, SeqCst);
    multiqueue2::verif_hooks::set_callback(Some(hooks::callback));
    if let Verdict::Inconclusive(m) = &verdict {
        shard.inconclusive.push(format!("{}: {}", m, cfg.describe()));
    }
    // the usual history rules still apply
    let c = CheckCtx {
        h: &h,
        n,
        first_stream,
        first_tx,
        probe_from: u64::MAX,
        probe_drained: Vec::new(),
        also: "",
    };
    let mut ix = checkers::build_index(&c);
    let _ = checkers::check_c10(&c, &mut ix);
    checkers::check_c01(&c, &ix);
    checkers::check_c02(&c, &ix);
    checkers::check_c07(&c, &ix);
    // signature: who had to wait and was woken
    let mut sig = Hasher64::new();
    sig.add(cfg.shape());
    let mut woken = 0;
    for c in &consumer_tids {
        let e = st.slots[c.0 as usize].enters.load(SeqCst);
        sig.add(e.min(4));
        sig.add(shared.got[c.0 as usize].load(SeqCst) as u64);
        if e > 0 && shared.got[c.0 as usize].load(SeqCst) > 0 {
            woken += 1;
        }
    }
    for e in &h {
        sig.add(e.thread as u64);
        sig.add(e.res.code());
    }
    shard.stat("consumers", nc as u64);
    shard.stat("consumers_that_blocked_and_were_woken", woken);
    shard.stat("wait_calls", consumer_tids.iter().map(|c| st.slots[c.0 as usize].enters.load(SeqCst)).sum());
    shard.stat("stalls_fired", hooks::STALLS_FIRED.swap(0, SeqCst));
    let violated = matches!(verdict, Verdict::Violated);
    if shard.samples.len() < 2 && woken > 0 {
        shard.samples.push(J::obj().set("cfg", J::s(cfg.describe())).set("history", hist::dump(&h, 60)));
    }
    if violated || payload::violations_pending() > 0 {
        let vs = also_c12(cfg, payload::take_violations());
        let replay = J::obj()
            .set("engine", J::s("wake"))
            .set("cfg", J::s(cfg.describe()))
            .set("run_seed", J::UInt(cfg.seed))
            .set("history", hist::dump(&h, 400));
        shard.add_violations(vs, &replay);
    }
    (sig.get(), woken > 0, false)
}

/// Handles were cloned or dropped while this scenario ran (a sender clone dropped mid-run, consumers
/// of a shared stream leaving one by one): that is supposed to be invisible to everybody else, so a
/// consumer left blocked is a finding about C12 as well.
fn also_c12(cfg: &WakeCfg, mut vs: Vec<payload::Violation>) -> Vec<payload::Violation> {
    if cfg.ghost.is_some() || cfg.streams.iter().any(|q| q.len() > 1) {
        for v in vs.iter_mut() {
            if !v.prop.contains("C12") {
                v.prop = payload::intern(format!("{},C12", v.prop));
            }
        }
    }
    vs
}

pub fn run_many(seed: u64, runs: u64, budget_ms: u64, small: bool, shard: &mut Shard) {
    let t0 = Instant::now();
    let mut rng = Rng::new(seed);
    let mut i = 0;
    while i < runs {
        if budget_ms != 0 && t0.elapsed().as_millis() as u64 > budget_ms {
            break;
        }
        let cfg = gen_cfg(&mut rng, small);
        let (sig, nontrivial, stuck) = run_once(&cfg, shard);
        if stuck {
            break;
        }
        shard.evaluations += 1;
        shard.distinct.insert(sig);
        if nontrivial {
            shard.nontrivial.insert(sig);
        }
        shard.stat(&format!("runs:{}", cfg.wait.name()), 1);
        if shard.violations.len() >= 12 {
            break;
        }
        i += 1;
    }
}
