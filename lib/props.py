"""Per-property workload tables: which engines / families / tools decide each property."""
import os

NCPU = min(16, os.cpu_count() or 4)
SCALE = float(os.environ.get("VERIF_BUDGET_SCALE", "1.0"))


def sseed(seed, i):
    return (seed * 1000003 + i) % (1 << 62)


def native_conc(prop, tier, seed, families, shards, budget_s, extra=None, label="conc", variant="native", base=0):
    jobs = []
    for i in range(shards):
        args = ["conc", "--families", ",".join(families), "--seed", str(sseed(seed, base + i)), "--runs", "100000000",
                "--budget-ms", str(int(budget_s * 1000 * SCALE))]
        if extra:
            args += extra[i % len(extra)] if isinstance(extra[0], list) else extra
        jobs.append(dict(variant=variant, args=args, label="%s-%s-%s-%d" % (prop, label, variant, i),
                         timeout=int(budget_s * SCALE) + 90))
    return jobs


def native_seq(prop, tier, seed, shards, budget_s, extra=None, label="seq", variant="native", base=100):
    jobs = []
    for i in range(shards):
        args = ["seq", "--seed", str(sseed(seed, base + i)), "--runs", "100000000",
                "--budget-ms", str(int(budget_s * 1000 * SCALE))]
        if extra:
            args += extra
        jobs.append(dict(variant=variant, args=args, label="%s-%s-%s-%d" % (prop, label, variant, i),
                         timeout=int(budget_s * SCALE) + 90))
    return jobs


def seq_exhaustive(prop, seed, depth, shards, budget_s, extra=None):
    jobs = []
    for i in range(shards):
        args = ["seq", "--mode", "exhaustive", "--depth", str(depth), "--shard", "%d/%d" % (i, shards),
                "--seed", str(sseed(seed, 200 + i)), "--budget-ms", str(int(budget_s * 1000 * SCALE))]
        if extra:
            args += extra
        jobs.append(dict(variant="native", args=args, label="%s-exh-%d" % (prop, i), timeout=int(budget_s * SCALE) + 90))
    return jobs


def miri_job(prop, seed, label, args, seeds, timeout, tool_props, leaks=False, no_race=False, base=0):
    a = (seed * 64 + base) % 1000000
    return dict(variant="miri", args=args + ["--seed", "auto", "--small"], label="%s-%s-miri" % (prop, label),
                miri_seeds=(a, a + seeds), timeout=timeout, tool_props=tool_props, leaks=leaks,
                no_race_detector=no_race)


T = dict(quick=dict(native_s=18, shards=12, miri_seeds=6, miri_timeout=420),
         thorough=dict(native_s=240, shards=14, miri_seeds=16, miri_timeout=2400))

COMMON_ASSUME = [
    "only sequentially consistent schedules are judged (native x86-TSO runs; Miri with weak-memory emulation off)",
    "schedules are sampled, not enumerated: real threads with seeded delay/stall injection at the crate's hook points, plus Miri's randomised scheduler",
    "hook-reported positions are the crate's own claim/commit values and are cross-checked against the boundary history",
]

PROPS = {
    "C01": dict(level="exploration", min_nontrivial=dict(quick=50, thorough=500), assumptions=COMMON_ASSUME,
                workloads="mq-conc families steady, view, quiesce, teardown-orders (plain and futures handles, all entry points)"),
    "C02": dict(level="exploration", min_nontrivial=dict(quick=50, thorough=500), assumptions=COMMON_ASSUME,
                workloads="mq-conc families steady, view, quiesce with multi-producer stalls"),
    "C03": dict(level="exploration", min_nontrivial=dict(quick=50, thorough=500), assumptions=COMMON_ASSUME,
                workloads="mq-conc steady / view / remove-stream with slow consumers and stalls in the writer's scan; mq-seq capacity rule"),
    "C06": dict(level="exploration", min_nontrivial=dict(quick=50, thorough=500), assumptions=COMMON_ASSUME,
                workloads="quiescent probe after every mq-conc family, dedicated quiesce family"),
    "C07": dict(level="exploration", min_nontrivial=dict(quick=50, thorough=500), assumptions=COMMON_ASSUME,
                workloads="mq-conc last-sender"),
    "C09": dict(level="exploration", min_nontrivial=dict(quick=200, thorough=2000), assumptions=[
        "the reference model of DESIGN.md 4.3 is the specification", "single thread: no scheduling involved"],
                workloads="mq-seq random sequences of 300 calls over all handle families + exhaustive enumeration of a reduced alphabet"),
}


def jobs_for(prop, tier, seed):
    t = T[tier]
    ns, nsec = t["shards"], t["native_s"]
    J = []
    if prop == "C01":
        J += native_conc(prop, tier, seed, ["steady", "view", "quiesce", "teardown-orders", "handle-churn"], ns, nsec)
    elif prop == "C02":
        J += native_conc(prop, tier, seed, ["steady", "view", "quiesce", "last-sender"], ns, nsec,
                         extra=[["--policy", "stall"], [], ["--policy", "yield"]])
    elif prop == "C03":
        J += native_conc(prop, tier, seed, ["steady", "view", "remove-stream", "wrap-slow-clone"], ns, nsec)
    elif prop == "C06":
        J += native_conc(prop, tier, seed, ["quiesce", "quiesce", "steady", "remove-stream", "handle-churn", "add-stream-sole",
                                            "last-sender", "view", "wrap-slow-clone"], ns, nsec)
    elif prop == "C07":
        J += native_conc(prop, tier, seed, ["last-sender"], ns, nsec)
    elif prop == "C09":
        J += native_seq(prop, tier, seed, max(4, ns - 6), nsec)
        J += seq_exhaustive(prop, seed, 5 if tier == "quick" else 6, 6 if tier == "quick" else 16, nsec * (1 if tier == "quick" else 3))
    return J
