//! mq-seq: single-threaded differential execution against the reference model,
//! call by call, with the payload ledger checked after a complete teardown.
//! Serves C09 (model equality, no panic), C05 (ledger, all teardown orders),
//! C11/C13/C15 sequential parts.
use crate::api::{self, Flavour, RecvKind, RecvOut, RxH, SendOut, TxH, WaitKind};
use crate::hist;
use crate::hooks;
use crate::model::{MRecv, MSend, Model};
use crate::out::J;
use crate::payload::{self, violation};
use crate::report::Shard;
use crate::rng::{Hasher64, Rng};

#[derive(Clone, Debug)]
pub struct SeqCfg {
    pub fl: Flavour,
    pub fut: bool,
    pub cap: u64,
    pub wait: WaitKind,
    pub fut_spins: Option<(usize, usize)>,
    /// exercise MPMCFutUniReceiver::add_stream_with (open finding P6)
    pub allow_p6: bool,
}

impl SeqCfg {
    pub fn describe(&self) -> String {
        format!(
            "{}{} cap={} wait={} spins={:?}{}",
            self.fl.name(),
            if self.fut { "-fut" } else { "" },
            self.cap,
            self.wait.name(),
            self.fut_spins,
            if self.allow_p6 { " +mpmc-uni-add_stream" } else { "" }
        )
    }
    pub fn hash(&self) -> u64 {
        let mut h = Hasher64::new();
        h.add_str(&self.describe());
        h.get()
    }
}

#[derive(Clone, Copy, Debug, PartialEq)]
pub enum Cmd {
    Send(usize, bool),
    Recv(usize, RecvKind),
    CloneTx(usize),
    DropTx(usize, bool),
    CloneRx(usize),
    AddStream(usize),
    IntoSingle(usize),
    IntoMulti(usize),
    Transform(usize),
    IntoIter(usize, bool),
    Unsub(usize),
    DropRx(usize),
}

pub struct St {
    pub cfg: SeqCfg,
    pub txs: Vec<TxH>,
    pub rxs: Vec<RxH>,
    pub model: Model,
    pub next_id: u64,
    pub sig: Hasher64,
    pub saw_full: bool,
    pub saw_wrap_delivery: bool,
    pub saw_end: bool,
    pub mismatches: u32,
    pub ops: u32,
    /// a stream created through the P6 call exists (model no longer applicable to payload ownership)
    pub p6_used: bool,
}

const MAX_TX: usize = 4;
const MAX_STREAMS: usize = 4;
const MAX_HANDLES_PER_STREAM: u32 = 3;

impl St {
    pub fn new(cfg: SeqCfg, id_base: u64) -> St {
        hang::set_cfg(&cfg);
        let (tx, rx) = api::create(cfg.fl, cfg.fut, cfg.cap, cfg.wait, cfg.fut_spins);
        let model = Model::new(cfg.cap, rx.stream);
        let mut sig = Hasher64::new();
        sig.add(cfg.hash());
        St {
            cfg,
            txs: vec![tx],
            rxs: vec![rx],
            model,
            next_id: id_base,
            sig,
            saw_full: false,
            saw_wrap_delivery: false,
            saw_end: false,
            mismatches: 0,
            ops: 0,
            p6_used: false,
        }
    }

    fn fut_prop(&self) -> &'static str {
        if self.cfg.fut {
            "C15,C09"
        } else {
            "C09"
        }
    }

    fn mismatch(&mut self, prop: &'static str, rule: &'static str, sig: String, what: String) {
        self.mismatches += 1;
        violation(
            prop,
            rule,
            sig,
            format!("{} | cfg: {} | model: {}", what, self.cfg.describe(), self.model.describe()),
        );
    }

    pub fn applicable(&self, c: Cmd) -> bool {
        match c {
            Cmd::Send(i, sink) => i < self.txs.len() && (!sink || self.txs[i].is_fut()),
            Cmd::Recv(i, k) => {
                if i >= self.rxs.len() || !self.rxs[i].supports(k) {
                    return false;
                }
                if k.blocking() {
                    // blocking calls are issued only when the model says they return
                    !matches!(self.model.peek_recv(self.rxs[i].stream), MRecv::Empty)
                } else {
                    true
                }
            }
            Cmd::CloneTx(i) => i < self.txs.len() && self.txs.len() < MAX_TX,
            Cmd::DropTx(i, _) => i < self.txs.len(),
            Cmd::CloneRx(i) => {
                i < self.rxs.len()
                    && self.rxs[i].can_clone()
                    && self.model.handles(self.rxs[i].stream) < MAX_HANDLES_PER_STREAM
            }
            Cmd::AddStream(i) => {
                i < self.rxs.len()
                    && self.model.streams.len() < MAX_STREAMS
                    && (self.rxs[i].can_add_stream()
                        || (self.cfg.allow_p6 && self.rxs[i].kind_name() == "MPMCFutUniReceiver"))
            }
            Cmd::IntoSingle(i) => {
                i < self.rxs.len() && self.rxs[i].can_clone() // same four types
            }
            Cmd::IntoMulti(i) => i < self.rxs.len() && self.rxs[i].is_uni(),
            Cmd::Transform(i) => {
                i < self.rxs.len() && self.rxs[i].is_uni() && self.rxs[i].is_fut()
            }
            Cmd::IntoIter(i, with) => {
                i < self.rxs.len()
                    && !self.rxs[i].is_fut()
                    && !self.rxs[i].is_iter()
                    && (!with || self.rxs[i].is_uni())
            }
            Cmd::Unsub(i) | Cmd::DropRx(i) => i < self.rxs.len(),
        }
    }

    pub fn exec(&mut self, c: Cmd) {
        self.ops += 1;
        self.sig.add(cmd_code(c));
        hang::CUR_CMD.store(cmd_code(c), std::sync::atomic::Ordering::Relaxed);
        hang::OPS_CLOCK.fetch_add(1, std::sync::atomic::Ordering::Relaxed);
        match c {
            Cmd::Send(i, sink) => {
                let id = self.next_id;
                self.next_id += 1;
                let expect = self.model.try_send(id);
                let got = if sink {
                    self.txs[i].start_send(id)
                } else {
                    self.txs[i].try_send(id)
                };
                self.sig.add(got as u64);
                let same = match (expect, got) {
                    (MSend::Ok, SendOut::Ok) => true,
                    (MSend::Full, SendOut::Full) => !sink,
                    (MSend::Full, SendOut::NotReady) => sink,
                    (MSend::Disc, SendOut::Disc) => true,
                    _ => false,
                };
                if expect == MSend::Full {
                    self.saw_full = true;
                }
                if !same {
                    if expect == MSend::Disc {
                        self.mismatch(
                            // (the removed streams still limit this sender: C11 as well)
                            if self.cfg.fut { "C13,C09,C15,C11" } else { "C13,C09,C11" },
                            "no-receiver-send",
                            format!("no-receiver-send:returns-{:?}", got),
                            format!(
                                "{} of id {:#x} with every receiver dropped returned {:?}, expected Disconnected",
                                if sink { "start_send" } else { "try_send" },
                                id,
                                got
                            ),
                        );
                        // keep the model in step with what actually happened
                        if got == SendOut::Ok {
                            self.model.log.push(id);
                        }
                    } else {
                        let prop = if expect == MSend::Full && got == SendOut::Ok {
                            if self.cfg.fut { "C15,C09,C03" } else { "C09,C03" }
                        } else {
                            self.fut_prop()
                        };
                        self.mismatch(
                            prop,
                            "seq-model",
                            format!("seq-model:send:{:?}-vs-{:?}", expect, got),
                            format!("send of {:#x}: model {:?}, queue {:?}", id, expect, got),
                        );
                        // resynchronise
                        if got == SendOut::Ok && expect != MSend::Ok {
                            self.model.log.push(id);
                        } else if got != SendOut::Ok && expect == MSend::Ok {
                            self.model.log.pop();
                        }
                    }
                }
            }
            Cmd::Recv(i, k) => {
                let stream = self.rxs[i].stream;
                let pre_len = self.model.log.len() as u64;
                let expect = self.model.peek_recv(stream);
                let got = self.rxs[i].recv_kind(k);
                self.sig.add(got.res().code());
                // the model follows what the queue actually did
                if let RecvOut::Val(_) = got {
                    let s = self.model.streams.get_mut(&stream).unwrap();
                    if (s.cursor as usize) < self.model.log.len() {
                        s.cursor += 1;
                    }
                }
                let same = match (expect, got) {
                    (MRecv::Val(e), RecvOut::Val(s)) => {
                        if pre_len > self.model.n {
                            self.saw_wrap_delivery = true;
                        }
                        e == s.id
                    }
                    (MRecv::Empty, RecvOut::Empty) => true,
                    (MRecv::Empty, RecvOut::NotReady) => k == RecvKind::Poll,
                    (MRecv::Empty, RecvOut::IterNone) => true,
                    (MRecv::End, RecvOut::End) => {
                        self.saw_end = true;
                        true
                    }
                    (MRecv::End, RecvOut::IterNone) => {
                        self.saw_end = true;
                        true
                    }
                    _ => false,
                };
                if !same {
                    if got != RecvOut::Panic {
                        let prop = if self.p6_used { "C05,C09,C15" } else { self.fut_prop() };
                        self.mismatch(
                            prop,
                            "seq-model",
                            format!("seq-model:{}:{}-vs-{}", k.op().name(), mrecv_name(&expect), got.res().code()),
                            format!(
                                "{} on {} (stream {}): model {:?}, queue {:?}",
                                k.op().name(),
                                self.rxs[i].kind_name(),
                                stream,
                                expect,
                                got
                            ),
                        );
                    } else {
                        self.mismatches += 1;
                    }
                }
            }
            Cmd::CloneTx(i) => {
                let n = self.txs[i].clone_tx();
                self.txs.push(n);
                self.model.clone_tx();
            }
            Cmd::DropTx(i, unsub) => {
                let t = self.txs.remove(i);
                t.drop_tx(unsub);
                self.model.drop_tx();
            }
            Cmd::CloneRx(i) => {
                if let Some(n) = self.rxs[i].clone_rx() {
                    self.model.clone_rx(n.stream);
                    self.rxs.push(n);
                }
            }
            Cmd::AddStream(i) => {
                if self.rxs[i].kind_name() == "MPMCFutUniReceiver" {
                    self.p6_used = true;
                }
                if let Some(n) = self.rxs[i].add_stream(self.cfg.allow_p6) {
                    self.model.add_stream(self.rxs[i].stream, n.stream);
                    self.rxs.push(n);
                }
            }
            Cmd::IntoSingle(i) => {
                let expect = self.model.handles(self.rxs[i].stream) == 1;
                if let Some(got) = self.rxs[i].into_single() {
                    self.sig.add(got as u64);
                    if got != expect {
                        self.mismatch(
                            self.fut_prop(),
                            "seq-model",
                            format!("seq-model:into_single:{}-vs-{}", expect, got),
                            format!("into_single: model {}, queue {}", expect, got),
                        );
                    }
                }
            }
            Cmd::IntoMulti(i) => {
                self.rxs[i].into_multi();
            }
            Cmd::Transform(i) => {
                self.rxs[i].transform();
            }
            Cmd::IntoIter(i, with) => {
                self.rxs[i].into_blocking_iter(with);
            }
            Cmd::Unsub(i) => {
                let r = self.rxs.remove(i);
                let stream = r.stream;
                let name = r.kind_name();
                let got = r.unsubscribe();
                let expect = self.model.drop_rx(stream);
                if let Some(g) = got {
                    self.sig.add(g as u64);
                    if g != expect {
                        self.mismatch(
                            if self.cfg.fut { "C11,C15,C09" } else { "C11,C09" },
                            "unsubscribe-bool",
                            format!("unsubscribe-bool:{}:{}-vs-{}", name, expect, g),
                            format!(
                                "{}::unsubscribe() returned {}, but the handle {} the last one of stream {}",
                                name,
                                g,
                                if expect { "was" } else { "was not" },
                                stream
                            ),
                        );
                    }
                }
            }
            Cmd::DropRx(i) => {
                let r = self.rxs.remove(i);
                let stream = r.stream;
                r.drop_rx();
                self.model.drop_rx(stream);
            }
        }
    }

    /// drop every remaining handle in the given order (indices into txs ++ rxs)
    pub fn teardown(mut self, order: &[usize]) -> (Hasher64, u32) {
        let ntx = self.txs.len();
        let mut txs: Vec<Option<TxH>> = self.txs.drain(..).map(Some).collect();
        let mut rxs: Vec<Option<RxH>> = self.rxs.drain(..).map(Some).collect();
        for &i in order {
            hang::CUR_CMD.store(0xF00 + i as u64, std::sync::atomic::Ordering::Relaxed);
            hang::OPS_CLOCK.fetch_add(1, std::sync::atomic::Ordering::Relaxed);
            if i < ntx {
                if let Some(t) = txs[i].take() {
                    t.drop_tx(false);
                }
            } else if let Some(r) = rxs[i - ntx].take() {
                r.drop_rx();
            }
        }
        drop(txs);
        drop(rxs);
        (self.sig, self.mismatches)
    }
}

fn mrecv_name(m: &MRecv) -> &'static str {
    match m {
        MRecv::Val(_) => "Val",
        MRecv::Empty => "Empty",
        MRecv::End => "End",
    }
}

fn cmd_code(c: Cmd) -> u64 {
    match c {
        Cmd::Send(i, s) => 0x100 + (i as u64) * 2 + s as u64,
        Cmd::Recv(i, k) => 0x200 + (i as u64) * 16 + k as u64,
        Cmd::CloneTx(i) => 0x300 + i as u64,
        Cmd::DropTx(i, u) => 0x400 + (i as u64) * 2 + u as u64,
        Cmd::CloneRx(i) => 0x500 + i as u64,
        Cmd::AddStream(i) => 0x600 + i as u64,
        Cmd::IntoSingle(i) => 0x700 + i as u64,
        Cmd::IntoMulti(i) => 0x800 + i as u64,
        Cmd::Transform(i) => 0x900 + i as u64,
        Cmd::IntoIter(i, w) => 0xA00 + (i as u64) * 2 + w as u64,
        Cmd::Unsub(i) => 0xB00 + i as u64,
        Cmd::DropRx(i) => 0xC00 + i as u64,
    }
}

pub fn random_cmd(st: &St, rng: &mut Rng, progress: f64) -> Option<Cmd> {
    for _ in 0..40 {
        let w = rng.below(100);
        let ntx = st.txs.len().max(1) as u64;
        let nrx = st.rxs.len().max(1) as u64;
        let ti = rng.below(ntx) as usize;
        let ri = rng.below(nrx) as usize;
        let late = progress > 0.7;
        let c = if w < 34 {
            Cmd::Send(ti, rng.chance(1, 2))
        } else if w < 70 {
            if st.rxs.is_empty() {
                continue;
            }
            let kinds = st.rxs[ri].supported_kinds(true);
            if kinds.is_empty() {
                continue;
            }
            Cmd::Recv(ri, *rng.pick(&kinds))
        } else if w < 73 {
            Cmd::CloneTx(ti)
        } else if w < 76 {
            if st.txs.len() == 1 && !late && !rng.chance(1, 12) {
                continue;
            }
            Cmd::DropTx(ti, rng.chance(1, 2))
        } else if w < 81 {
            Cmd::CloneRx(ri)
        } else if w < 86 {
            Cmd::AddStream(ri)
        } else if w < 89 {
            Cmd::IntoSingle(ri)
        } else if w < 92 {
            Cmd::IntoMulti(ri)
        } else if w < 93 {
            Cmd::Transform(ri)
        } else if w < 94 {
            if !late {
                continue;
            }
            Cmd::IntoIter(ri, rng.chance(1, 2))
        } else {
            if st.rxs.len() == 1 && !late && !rng.chance(1, 12) {
                continue;
            }
            if rng.chance(1, 2) {
                Cmd::Unsub(ri)
            } else {
                Cmd::DropRx(ri)
            }
        };
        // a sink send needs a futures sender
        let c = match c {
            Cmd::Send(i, true) if i < st.txs.len() && !st.txs[i].is_fut() => Cmd::Send(i, false),
            o => o,
        };
        if st.applicable(c) {
            return Some(c);
        }
    }
    None
}

pub fn all_perms(n: usize) -> Vec<Vec<usize>> {
    fn rec(cur: &mut Vec<usize>, used: &mut Vec<bool>, n: usize, out: &mut Vec<Vec<usize>>) {
        if cur.len() == n {
            out.push(cur.clone());
            return;
        }
        for i in 0..n {
            if !used[i] {
                used[i] = true;
                cur.push(i);
                rec(cur, used, n, out);
                cur.pop();
                used[i] = false;
            }
        }
    }
    let mut out = Vec::new();
    rec(&mut Vec::new(), &mut vec![false; n], n, &mut out);
    out
}

/// after a complete teardown: nothing may still be alive (C05), monitors may have fired
fn finish_run(shard: &mut Shard, replay: &J, what: &str) -> bool {
    finish_run_ctx(shard, replay, what, false)
}

/// `two_streams_on_mpmc`: the run created a second stream on a move-out queue through
/// MPMCFutUniReceiver::add_stream_with (open finding): both streams own every slot, so whatever
/// the monitors report in such a run is attributed to that call shape.
fn finish_run_ctx(shard: &mut Shard, replay: &J, what: &str, two_streams_on_mpmc: bool) -> bool {
    let alive = payload::alive_serials();
    if !alive.is_empty() {
        violation(
            "C05",
            "never-dropped",
            "never-dropped:after-teardown".to_string(),
            format!(
                "{} payload instance(s) still alive after every handle was dropped ({}); serials {:?}",
                alive.len(),
                what,
                &alive[..alive.len().min(8)]
            ),
        );
    }
    let mut vs = payload::take_violations();
    let bad = !vs.is_empty();
    // one thread, a reference model that always answers: a call that passes its own-step bound or
    // panics differs from the model, whichever property the monitor was written for
    for v in vs.iter_mut() {
        if (v.rule == "step-bound" || v.rule == "panic") && !v.prop.contains("C09") {
            v.prop = payload::intern(format!("{},C09", v.prop));
        }
    }
    if two_streams_on_mpmc {
        for v in vs.iter_mut() {
            v.sig = format!("two-streams-on-mpmc:{}", v.rule);
            v.prop = "C05";
        }
    }
    if bad {
        shard.add_violations(vs, replay);
    }
    payload::reset_ledger();
    api::reset_ids();
    hist::clock_reset();
    bad
}

pub struct SeqParams {
    pub seed: u64,
    pub runs: u64,
    pub len: usize,
    pub budget_ms: u64,
    pub cfgs: Vec<SeqCfg>,
    /// fraction (1/n) of runs whose script is replayed under every teardown permutation (<=4 handles: all; else 24 random)
    pub perm_every: u64,
    pub exhaustive_depth: usize,
    pub shard_index: u64,
    pub shard_count: u64,
}

pub fn default_cfgs(include_p6: bool) -> Vec<SeqCfg> {
    let mut v = Vec::new();
    let caps = [0u64, 1, 2, 3, 4, 5, 8, 9];
    for &cap in &caps {
        for &fl in &[Flavour::Broadcast, Flavour::Mpmc] {
            for &fut in &[false, true] {
                let waits: Vec<WaitKind> = if fut {
                    vec![WaitKind::Busy]
                } else {
                    vec![WaitKind::Busy, WaitKind::Yield(2, 2), WaitKind::Block(0, 0), WaitKind::Block(50, 50)]
                };
                for w in waits {
                    let spins: Vec<Option<(usize, usize)>> = if fut && fl == Flavour::Broadcast {
                        vec![None, Some((0, 0)), Some((2, 1))]
                    } else {
                        vec![None]
                    };
                    for sp in spins {
                        v.push(SeqCfg {
                            fl,
                            fut,
                            cap,
                            wait: w,
                            fut_spins: sp,
                            allow_p6: false,
                        });
                        if include_p6 && fut && fl == Flavour::Mpmc {
                            v.push(SeqCfg {
                                fl,
                                fut,
                                cap,
                                wait: w,
                                fut_spins: sp,
                                allow_p6: true,
                            });
                        }
                    }
                }
            }
        }
    }
    v
}

fn run_random_once(
    cfg: &SeqCfg,
    seed: u64,
    len: usize,
    order_seed: Option<&[usize]>,
    shard: &mut Shard,
    keep_sample: bool,
) -> (bool, usize) {
    let mut rng = Rng::new(seed);
    let mut st = St::new(cfg.clone(), 0x1000);
    let mut cmds: Vec<Cmd> = Vec::new();
    for step in 0..len {
        match random_cmd(&st, &mut rng, step as f64 / len as f64) {
            Some(c) => {
                cmds.push(c);
                st.exec(c);
            }
            None => break,
        }
        if st.mismatches > 0 {
            break;
        }
    }
    let nh = st.txs.len() + st.rxs.len();
    let order: Vec<usize> = match order_seed {
        Some(o) if o.len() == nh => o.to_vec(),
        _ => {
            let mut o: Vec<usize> = (0..nh).collect();
            rng.shuffle(&mut o);
            o
        }
    };
    let nontrivial = st.saw_full && st.saw_wrap_delivery;
    let ops = st.ops;
    let p6_used = st.p6_used;
    let cfgd = st.cfg.describe();
    let (mut sig, _) = st.teardown(&order);
    for o in &order {
        sig.add(*o as u64);
    }
    let h = hist::take();
    let replay = J::obj()
        .set("engine", J::s("seq"))
        .set("mode", J::s("random"))
        .set("cfg", J::s(cfgd.clone()))
        .set("seed", J::UInt(seed))
        .set("len", J::UInt(len as u64))
        .set("teardown_order", J::Arr(order.iter().map(|x| J::UInt(*x as u64)).collect()))
        .set("commands", J::Arr(cmds.iter().map(|c| J::s(format!("{:?}", c))).collect()))
        .set("history", hist::dump(&h, 400));
    let bad = finish_run_ctx(shard, &replay, &cfgd, p6_used);
    shard.evaluations += 1;
    shard.stat("ops", ops as u64);
    shard.distinct.insert(sig.get());
    if nontrivial {
        shard.nontrivial.insert(sig.get());
    }
    if keep_sample && shard.samples.len() < 3 {
        shard.samples.push(
            J::obj()
                .set("cfg", J::s(cfgd))
                .set("seed", J::UInt(seed))
                .set("history", hist::dump(&h, 60)),
        );
    }
    (bad, nh)
}

pub fn run_random(p: &SeqParams, shard: &mut Shard) {
    let t0 = std::time::Instant::now();
    let mut rng = Rng::new(p.seed);
    hooks::thread_begin(0, 0, p.seed, hooks::Policy::None, &[]);
    api::STEP_LIMIT.store(50_000, std::sync::atomic::Ordering::Relaxed);
    let mut i = 0u64;
    while i < p.runs {
        if p.budget_ms != 0 && t0.elapsed().as_millis() as u64 > p.budget_ms {
            break;
        }
        let cfg = &p.cfgs[(rng.below(p.cfgs.len() as u64)) as usize];
        let seed = rng.next();
        let (bad, nh) = run_random_once(cfg, seed, p.len, None, shard, i < 3);
        if bad {
            shard.stat("runs_with_violation", 1);
            if shard.violations.len() >= 12 {
                break;
            }
        } else if p.perm_every != 0 && i % p.perm_every == 0 && nh >= 2 {
            // same script, every teardown order (C05)
            let perms = if nh <= 4 {
                all_perms(nh)
            } else {
                let mut v = Vec::new();
                for _ in 0..24 {
                    let mut o: Vec<usize> = (0..nh).collect();
                    rng.shuffle(&mut o);
                    v.push(o);
                }
                v
            };
            shard.stat("teardown_perm_sets", 1);
            for o in perms {
                let (b, _) = run_random_once(cfg, seed, p.len, Some(&o), shard, false);
                shard.stat("teardown_perm_runs", 1);
                if b {
                    break;
                }
            }
        }
        i += 1;
    }
    hooks::thread_end();
}

/// the reduced alphabet used for exhaustive enumeration
fn alphabet(st: &St, code: usize) -> Option<Cmd> {
    let last_rx = st.rxs.len().wrapping_sub(1);
    let last_tx = st.txs.len().wrapping_sub(1);
    let alt = |i: usize| -> Option<RecvKind> {
        if i >= st.rxs.len() {
            return None;
        }
        for k in [RecvKind::Poll, RecvKind::TryView, RecvKind::TryIter, RecvKind::IterNext].iter() {
            if st.rxs[i].supports(*k) {
                return Some(*k);
            }
        }
        None
    };
    let c = match code {
        0 => Cmd::Send(0, false),
        1 => Cmd::Send(last_tx, st.txs.get(last_tx).map(|t| t.is_fut()).unwrap_or(false)),
        2 => Cmd::Recv(0, RecvKind::TryRecv),
        3 => Cmd::Recv(last_rx, RecvKind::TryRecv),
        4 => Cmd::Recv(0, alt(0)?),
        5 => Cmd::Recv(last_rx, alt(last_rx)?),
        6 => Cmd::CloneTx(0),
        7 => Cmd::DropTx(last_tx, false),
        8 => Cmd::CloneRx(0),
        9 => Cmd::AddStream(0),
        10 => {
            if st.rxs.get(last_rx)?.is_uni() {
                Cmd::IntoMulti(last_rx)
            } else {
                Cmd::IntoSingle(last_rx)
            }
        }
        11 => Cmd::DropRx(last_rx),
        12 => Cmd::Unsub(0),
        13 => Cmd::Recv(last_rx, RecvKind::Recv),
        _ => return None,
    };
    // codes 1/3/5 are only meaningful when they differ from 0/2/4
    match code {
        1 if last_tx == 0 && !st.txs.get(0).map(|t| t.is_fut()).unwrap_or(false) => return None,
        3 | 5 if last_rx == 0 => return None,
        _ => {}
    }
    if st.applicable(c) {
        Some(c)
    } else {
        None
    }
}

pub const ALPHA: usize = 14;

/// all command sequences of exactly `depth` codes (plus prefixes that end early), sharded by first two codes
pub fn run_exhaustive(p: &SeqParams, shard: &mut Shard) {
    let t0 = std::time::Instant::now();
    hooks::thread_begin(0, 0, p.seed, hooks::Policy::None, &[]);
    api::STEP_LIMIT.store(50_000, std::sync::atomic::Ordering::Relaxed);
    let depth = p.exhaustive_depth;
    let mut complete = true;
    let mut leafs = 0u64;
    'cfgs: for (ci, cfg) in p.cfgs.iter().enumerate() {
        let total = (ALPHA as u64).pow(depth as u32);
        let mut n = 0u64;
        while n < total {
            // shard on the sequence number
            if (n + ci as u64) % p.shard_count != p.shard_index {
                n += 1;
                continue;
            }
            if p.budget_ms != 0 && (leafs & 0x3ff) == 0 && t0.elapsed().as_millis() as u64 > p.budget_ms {
                complete = false;
                break 'cfgs;
            }
            let mut st = St::new(cfg.clone(), 0x1000);
            let mut x = n;
            let mut ok = true;
            let mut cmds = Vec::with_capacity(depth);
            for _ in 0..depth {
                let code = (x % ALPHA as u64) as usize;
                x /= ALPHA as u64;
                match alphabet(&st, code) {
                    Some(c) => {
                        cmds.push(c);
                        st.exec(c);
                    }
                    None => {
                        ok = false;
                        break;
                    }
                }
            }
            if !ok {
                // inapplicable: the sequence is not part of the space; skip the whole block of
                // sequences sharing this prefix only if the failure was at the last position
                let nh = st.txs.len() + st.rxs.len();
                let order: Vec<usize> = (0..nh).collect();
                st.teardown(&order);
                let _ = hist::take();
                payload::take_violations();
                payload::reset_ledger();
                api::reset_ids();
                hist::clock_reset();
                shard.stat("exhaustive_skipped_inapplicable", 1);
                n += 1;
                continue;
            }
            let nh = st.txs.len() + st.rxs.len();
            // teardown order chosen by the sequence number so that all orders get covered
            let perms = if nh <= 4 { all_perms(nh) } else { vec![(0..nh).collect()] };
            let order = perms[(n as usize) % perms.len()].clone();
            let nontrivial = st.saw_full || st.saw_end;
            let cfgd = st.cfg.describe();
            let ops = st.ops;
            let (mut sig, _) = st.teardown(&order);
            for o in &order {
                sig.add(*o as u64);
            }
            let h = hist::take();
            let replay = J::obj()
                .set("engine", J::s("seq"))
                .set("mode", J::s("exhaustive"))
                .set("cfg", J::s(cfgd.clone()))
                .set("sequence_number", J::UInt(n))
                .set("depth", J::UInt(depth as u64))
                .set("commands", J::Arr(cmds.iter().map(|c| J::s(format!("{:?}", c))).collect()))
                .set("teardown_order", J::Arr(order.iter().map(|x| J::UInt(*x as u64)).collect()))
                .set("history", hist::dump(&h, 100));
            let bad = finish_run(shard, &replay, &cfgd);
            shard.evaluations += 1;
            leafs += 1;
            shard.stat("ops", ops as u64);
            shard.distinct.insert(sig.get());
            if nontrivial {
                shard.nontrivial.insert(sig.get());
            }
            if shard.samples.len() < 2 && nontrivial {
                shard.samples.push(
                    J::obj()
                        .set("cfg", J::s(cfgd))
                        .set("sequence_number", J::UInt(n))
                        .set("history", hist::dump(&h, 40)),
                );
            }
            if bad && shard.violations.len() >= 12 {
                complete = false;
                break 'cfgs;
            }
            n += 1;
        }
    }
    shard.stat("exhaustive_complete", complete as u64);
    shard.stat("exhaustive_depth", depth as u64);
    hooks::thread_end();
}

/// A call that never comes back, in a program with one thread.
///
/// Every handle of the queue under test is owned by the calling thread, so nothing can ever wake or
/// release it: if the thread sits asleep in the kernel with no CPU progress, or burns CPU without
/// finishing one call, for two seconds' worth of samples, the call will never return. That is decided
/// by a guard thread from the scheduler state and the thread's CPU clock (not from wall-clock time
/// alone: a thread that is merely descheduled is in state R and gains no CPU time, and is left alone).
/// The guard then writes the shard result itself and ends the process, because the stuck thread
/// cannot be joined.
pub mod hang {
    use super::SeqCfg;
    use crate::out::J;
    use crate::payload::Violation;
    use crate::report::Shard;
    use std::sync::atomic::Ordering::{Relaxed, SeqCst};
    use std::sync::atomic::{AtomicBool, AtomicU64};
    use std::sync::Mutex;
    use std::time::Duration;

    pub static OPS_CLOCK: AtomicU64 = AtomicU64::new(0);
    pub static CUR_CMD: AtomicU64 = AtomicU64::new(0);
    static CUR_CFG: Mutex<(String, bool)> = Mutex::new((String::new(), false));
    static STOP: AtomicBool = AtomicBool::new(false);

    pub fn set_cfg(c: &SeqCfg) {
        if cfg!(miri) {
            return;
        }
        let mut g = CUR_CFG.lock().unwrap();
        g.0.clear();
        g.0.push_str(&c.describe());
        g.1 = c.fut;
    }

    fn cmd_name(code: u64) -> String {
        let (k, a) = (code >> 8, code & 0xff);
        match k {
            1 => format!("{}(handle {})", if a & 1 == 1 { "start_send" } else { "try_send" }, a >> 1),
            2 => format!("receive(handle {}, entry point {})", a >> 4, a & 15),
            3 => format!("clone sender {}", a),
            4 => format!("drop sender {}", a >> 1),
            5 => format!("clone receiver {}", a),
            6 => format!("add_stream({})", a),
            7 => format!("into_single({})", a),
            8 => format!("into_multi({})", a),
            9 => format!("transform_operation({})", a),
            10 => format!("iterator-adapter(handle {})", a >> 1),
            11 => format!("unsubscribe({})", a),
            15 => format!("teardown: drop handle {}", a),
            _ => format!("command {:#x}", code),
        }
    }

    /// kind used in the signature: stable across handle indices
    fn cmd_kind(code: u64) -> &'static str {
        match code >> 8 {
            1 => "send",
            2 => "receive",
            3 | 5 => "clone",
            4 | 15 => "drop",
            6 => "add_stream",
            7 | 8 | 9 => "convert",
            10 => "iterator",
            11 => "unsubscribe",
            _ => "other",
        }
    }

    pub struct Guard(Option<std::thread::JoinHandle<()>>);

    impl Drop for Guard {
        fn drop(&mut self) {
            STOP.store(true, SeqCst);
            if let Some(j) = self.0.take() {
                let _ = j.join();
            }
            STOP.store(false, SeqCst);
        }
    }

    pub fn start(out: Option<String>, seed: u64) -> Guard {
        if cfg!(miri) {
            return Guard(None);
        }
        let ktid = unsafe { libc::syscall(libc::SYS_gettid) } as u64;
        let pt = unsafe { libc::pthread_self() };
        let j = std::thread::spawn(move || {
            const SAMPLES: u32 = 40;
            let mut last = OPS_CLOCK.load(Relaxed);
            let mut same = 0u32;
            let mut asleep = 0u32;
            let mut cpu0 = crate::solo::thread_cpu_ns(pt).unwrap_or(0);
            loop {
                std::thread::sleep(Duration::from_millis(50));
                if STOP.load(SeqCst) {
                    return;
                }
                let now = OPS_CLOCK.load(Relaxed);
                if now != last {
                    last = now;
                    same = 0;
                    asleep = 0;
                    cpu0 = crate::solo::thread_cpu_ns(pt).unwrap_or(0);
                    continue;
                }
                same += 1;
                if crate::solo::solo_state(ktid) == Some('S') {
                    asleep += 1;
                }
                if same < SAMPLES {
                    continue;
                }
                let cpu = crate::solo::thread_cpu_ns(pt).unwrap_or(0).saturating_sub(cpu0);
                let how = if asleep == same && cpu < 10_000_000 {
                    "blocks"
                } else if cpu >= 1_800_000_000 {
                    "spins"
                } else {
                    // descheduled or in between: no verdict, keep watching
                    same = 0;
                    asleep = 0;
                    cpu0 = crate::solo::thread_cpu_ns(pt).unwrap_or(0);
                    continue;
                };
                if OPS_CLOCK.load(Relaxed) != last {
                    continue;
                }
                let code = CUR_CMD.load(Relaxed);
                let (cfgd, fut) = CUR_CFG.lock().map(|g| g.clone()).unwrap_or_default();
                let mut shard = Shard::new("mq-seq");
                shard.rule = "single-threaded call that never returns".to_string();
                shard.evaluations = now;
                let v = Violation {
                    prop: if fut { "C09,C15" } else { "C09" },
                    rule: "seq-call-never-returns",
                    sig: format!("seq-call-never-returns:{}:{}", how, cmd_kind(code)),
                    detail: format!(
                        "single-threaded program, every handle owned by the caller: {} did not return; the thread {} ({} ms CPU over {} samples of 50 ms, {} of them asleep in the kernel) and nothing exists that could release it ({})",
                        cmd_name(code),
                        if how == "blocks" { "is asleep in the kernel without CPU progress" } else { "burns CPU without finishing the call" },
                        cpu / 1_000_000,
                        same,
                        asleep,
                        cfgd
                    ),
                };
                let replay = J::obj().set("engine", J::s("seq")).set("cfg", J::s(cfgd)).set("stuck_in", J::s(cmd_name(code))).set("seed", J::UInt(seed));
                shard.add_violations(vec![v], &replay);
                let mut j = shard.to_json();
                j.put("seed_used", J::UInt(seed));
                let s = j.to_string();
                match &out {
                    Some(p) => {
                        let _ = std::fs::write(p, s);
                    }
                    None => {
                        println!("SHARDJSON {}", s);
                    }
                }
                println!("SHARD engine=mq-seq stuck call reported by the guard");
                std::process::exit(0);
            }
        });
        Guard(Some(j))
    }
}
