//! Boundary history: every client call is recorded by the calling thread with a
//! logical call stamp taken *before invoking* and a return stamp taken *after the
//! reply*, from one global counter. "A really precedes B" iff t_ret(A) < t_call(B).
use std::cell::{Cell, RefCell};
use std::sync::atomic::AtomicU64;
use std::sync::atomic::Ordering;

use crate::out::J;

// Under Miri the clock uses Relaxed operations so that the monitor adds no
// happens-before edges that could hide an ordering bug from the race detector
// (Miri runs with weak-memory emulation off, so the stamps are still a total order
// consistent with execution order).
#[cfg(miri)]
const ORD: Ordering = Ordering::Relaxed;
#[cfg(not(miri))]
const ORD: Ordering = Ordering::SeqCst;

static CLOCK: AtomicU64 = AtomicU64::new(0);

#[inline]
pub fn tick() -> u64 {
    CLOCK.fetch_add(1, ORD) + 1
}
#[inline]
pub fn clock_peek() -> u64 {
    CLOCK.load(Ordering::Relaxed)
}
pub fn clock_reset() {
    CLOCK.store(0, Ordering::SeqCst);
}

#[derive(Clone, Copy, Debug, PartialEq, Eq, Hash)]
pub enum Op {
    Send,
    SinkSend,
    TryRecv,
    Recv,
    TryView,
    RecvView,
    TryIterNext,
    IterNext,
    Poll,
    CloneTx,
    DropTx,
    CloneRx,
    DropRx,
    Unsub,
    AddStream,
    IntoSingle,
    IntoMulti,
    Transform,
    IntoIter,
    /// harness marker: the executor probe-polls a parked task at quiescence
    Probe,
}

impl Op {
    pub fn is_send(self) -> bool {
        matches!(self, Op::Send | Op::SinkSend)
    }
    pub fn is_recv(self) -> bool {
        matches!(
            self,
            Op::TryRecv
                | Op::Recv
                | Op::TryView
                | Op::RecvView
                | Op::TryIterNext
                | Op::IterNext
                | Op::Poll
        )
    }
    pub fn name(self) -> &'static str {
        match self {
            Op::Send => "try_send",
            Op::SinkSend => "start_send",
            Op::TryRecv => "try_recv",
            Op::Recv => "recv",
            Op::TryView => "try_recv_view",
            Op::RecvView => "recv_view",
            Op::TryIterNext => "try_iter.next",
            Op::IterNext => "iter.next",
            Op::Poll => "poll",
            Op::CloneTx => "clone_tx",
            Op::DropTx => "drop_tx",
            Op::CloneRx => "clone_rx",
            Op::DropRx => "drop_rx",
            Op::Unsub => "unsubscribe",
            Op::AddStream => "add_stream",
            Op::IntoSingle => "into_single",
            Op::IntoMulti => "into_multi",
            Op::Transform => "transform_operation",
            Op::IntoIter => "into_iter",
            Op::Probe => "PROBE-POLL(harness)",
        }
    }
}

#[derive(Clone, Copy, Debug, PartialEq)]
pub enum Res {
    /// call has not returned (thread stuck / run cut)
    Open,
    Ok,
    Full,
    Disc,
    Val(u64),
    Empty,
    /// blocking receive / iterator / stream reported the end
    End,
    /// non-blocking iterator returned None (Empty or end, not distinguishable)
    IterNone,
    NotReady,
    Bool(bool),
    New { handle: u32, stream: u32 },
    /// into_single refused (more than one handle)
    Refused,
    Panic,
}

impl Res {
    pub fn code(&self) -> u64 {
        match self {
            Res::Open => 0,
            Res::Ok => 1,
            Res::Full => 2,
            Res::Disc => 3,
            Res::Val(_) => 4,
            Res::Empty => 5,
            Res::End => 6,
            Res::IterNone => 7,
            Res::NotReady => 8,
            Res::Bool(true) => 9,
            Res::Bool(false) => 10,
            Res::New { .. } => 11,
            Res::Refused => 12,
            Res::Panic => 13,
        }
    }
    pub fn show(&self) -> String {
        match self {
            Res::Val(v) => format!("Val({:#x})", v),
            Res::New { handle, stream } => format!("New(h{},s{})", handle, stream),
            o => format!("{:?}", o),
        }
    }
}

#[derive(Clone, Debug)]
pub struct Event {
    pub t_call: u64,
    pub t_ret: u64,
    pub thread: u32,
    pub handle: u32,
    pub stream: u32,
    pub op: Op,
    /// id sent (send ops)
    pub arg: u64,
    pub res: Res,
    /// position reported by the crate's hook (claimed head / consumed position), u64::MAX if none
    pub pos: u64,
    /// for refused sends: the value handed back is the very instance that was passed in
    pub echo_ok: bool,
}

pub const NO_POS: u64 = u64::MAX;

impl Event {
    pub fn done(&self) -> bool {
        self.res != Res::Open
    }
    pub fn show(&self) -> String {
        format!(
            "[{}..{}] T{} h{} s{} {}({}) -> {}{}",
            self.t_call,
            if self.t_ret == u64::MAX {
                "open".to_string()
            } else {
                self.t_ret.to_string()
            },
            self.thread,
            self.handle,
            self.stream,
            self.op.name(),
            if self.op.is_send() {
                format!("{:#x}", self.arg)
            } else {
                String::new()
            },
            self.res.show(),
            if self.pos != NO_POS {
                format!(" @{}", self.pos)
            } else {
                String::new()
            }
        )
    }
    pub fn to_json(&self) -> J {
        J::s(self.show())
    }
}

thread_local! {
    static LOG: RefCell<Vec<Event>> = RefCell::new(Vec::new());
    static TID: Cell<u32> = Cell::new(0);
    static ENABLED: Cell<bool> = Cell::new(true);
}

/// switch history recording off/on for the calling thread (memory accounting runs)
pub fn set_enabled(on: bool) {
    ENABLED.with(|e| e.set(on));
}

pub fn set_thread(tid: u32) {
    TID.with(|t| t.set(tid));
}
pub fn thread_id() -> u32 {
    TID.with(|t| t.get())
}

/// record the call event before invoking; returns a token for `ret`
#[inline]
pub fn call(handle: u32, stream: u32, op: Op, arg: u64) -> usize {
    if !ENABLED.with(|e| e.get()) {
        return usize::MAX;
    }
    let thread = thread_id();
    LOG.with(|l| {
        let mut l = l.borrow_mut();
        let t_call = tick();
        l.push(Event {
            t_call,
            t_ret: u64::MAX,
            thread,
            handle,
            stream,
            op,
            arg,
            res: Res::Open,
            pos: NO_POS,
            echo_ok: true,
        });
        l.len() - 1
    })
}

/// record the return event after the reply
#[inline]
pub fn ret(tok: usize, res: Res, pos: u64) {
    if tok == usize::MAX {
        return;
    }
    LOG.with(|l| {
        let mut l = l.borrow_mut();
        let t = tick();
        let e = &mut l[tok];
        e.t_ret = t;
        e.res = res;
        e.pos = pos;
    })
}

pub fn ret_echo(tok: usize, res: Res, pos: u64, echo_ok: bool) {
    if tok == usize::MAX {
        return;
    }
    LOG.with(|l| {
        let mut l = l.borrow_mut();
        let t = tick();
        let e = &mut l[tok];
        e.t_ret = t;
        e.res = res;
        e.pos = pos;
        e.echo_ok = echo_ok;
    })
}

/// take this thread's log
pub fn take() -> Vec<Event> {
    LOG.with(|l| std::mem::take(&mut *l.borrow_mut()))
}

/// number of events this thread has logged so far
pub fn len() -> usize {
    LOG.with(|l| l.borrow().len())
}

/// merge per-thread logs into one history ordered by call stamp
pub fn merge(mut logs: Vec<Vec<Event>>) -> Vec<Event> {
    let mut all: Vec<Event> = Vec::new();
    for l in logs.drain(..) {
        all.extend(l);
    }
    all.sort_by_key(|e| e.t_call);
    all
}

pub fn dump(h: &[Event], max: usize) -> J {
    let mut a = Vec::new();
    for e in h.iter().take(max) {
        a.push(e.to_json());
    }
    if h.len() > max {
        a.push(J::s(format!("... {} more events", h.len() - max)));
    }
    J::Arr(a)
}

/// harness marker event
pub fn mark(handle: u32, stream: u32, op: Op) {
    let t = call(handle, stream, op, 0);
    ret(t, Res::Ok, NO_POS);
}
